--------------------------- MODULE Sha256Writer ---------------------------
(***************************************************************************)
(* The streaming writer of hash.ts (Hash256Writer) around an uninterpreted *)
(* compression function: buffering, block boundaries, FIPS 180-4 padding   *)
(* and the length field.  State is the projection the driver can read from *)
(* the real object (TypeScript `private` is erased): bufferLength,         *)
(* bytesHashed, number of processChunk calls, finished.                    *)
(***************************************************************************)
EXTENDS Naturals, Sequences

CONSTANTS Sizes,      \* sizes of single writes that are explored
          MaxWrites

VARIABLES bufLen, total, blocks, finished, writes
wvars == <<bufLen, total, blocks, finished, writes>>

WInit == bufLen = 0 /\ total = 0 /\ blocks = 0 /\ finished = FALSE /\ writes = <<>>

\* updateBytes(data) with |data| = n: fill the 64-byte buffer, compress every time it is full
Update(n) ==
  /\ ~finished
  /\ Len(writes) < MaxWrites
  /\ total' = total + n
  /\ bufLen' = (bufLen + n) % 64
  /\ blocks' = blocks + ((bufLen + n) \div 64)
  /\ writes' = Append(writes, n)
  /\ UNCHANGED finished

\* digestHex(): append 0x80, pad with zeros to 56 mod 64 (one extra block when bufLen >= 56), 64-bit length
Digest ==
  /\ ~finished
  /\ finished' = TRUE
  /\ blocks' = blocks + (IF bufLen + 1 > 56 THEN 2 ELSE 1)
  /\ bufLen' = 0
  /\ UNCHANGED <<total, writes>>

WNext == (\E n \in Sizes : Update(n)) \/ Digest
WSpec == WInit /\ [][WNext]_wvars

\* ------------------------------------------------------------------ properties
BufferIsRemainder == ~finished => (bufLen = total % 64 /\ bufLen \in 0..63)
BlocksBeforeDigest == ~finished => blocks = total \div 64
\* FIPS 180-4: the padded message is the smallest multiple of 64 bytes holding data + 0x80 + 8 length bytes
PaddedLength == finished => blocks * 64 = ((total + 1 + 8 + 63) \div 64) * 64
\* the length field is 8 * total bits (TLC integers are 32-bit: the high word is 0 for every explored total)
LengthBits(t) == t * 8
WriterOK == BufferIsRemainder /\ BlocksBeforeDigest /\ PaddedLength
\* nothing is enabled after Digest (the implementation throws)
DeadAfterDigest == finished => ~ENABLED WNext
=============================================================================

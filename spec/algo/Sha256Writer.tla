--------------------------- MODULE Sha256Writer ---------------------------
(***************************************************************************)
(* The streaming writer of hash.ts (Hash256Writer) around an uninterpreted *)
(* compression function: buffering, block boundaries, FIPS 180-4 padding   *)
(* and the length field.  State is the projection the driver can read from *)
(* the real object (TypeScript `private` is erased): bufferLength,         *)
(* bytesHashed, number of processChunk calls, finished.                    *)
(***************************************************************************)
EXTENDS Naturals, Sequences

CONSTANTS Sizes,      \* sizes of single writes that are explored
          MaxWrites,
          TokChars,   \* token layer: numbers of characters of a string token ...
          TokWidths   \* ... and UTF-8 bytes per character (1: ASCII, 2: Latin / Greek, 3: CJK, 4: outside the BMP = two UTF-16 code units)

VARIABLES bufLen, total, blocks, finished, writes
wvars == <<bufLen, total, blocks, finished, writes>>

WInit == bufLen = 0 /\ total = 0 /\ blocks = 0 /\ finished = FALSE /\ writes = <<>>

\* updateBytes(data) with |data| = n: fill the 64-byte buffer, compress every time it is full
Update(n) ==
  /\ ~finished
  /\ Len(writes) < MaxWrites
  /\ total' = total + n
  /\ bufLen' = (bufLen + n) % 64
  /\ blocks' = blocks + ((bufLen + n) \div 64)
  /\ writes' = Append(writes, [k |-> "raw", c |-> n, w |-> 1])
  /\ UNCHANGED finished

\* The token layer of the writer (updateTag / updateString / updateNumber): a kind byte (1 tag, 2 string, 3 number), the
\* length of the UTF-8 encoding as a 32-bit big-endian integer, then the UTF-8 bytes - i.e. three writes of 1, 4 and c * w bytes.
\* Whatever buffering the implementation uses for the encoding, the stream grows by exactly 5 + c * w bytes.
TokenBytes(c, w) == 5 + c * w
Token(k, c, w) ==
  /\ ~finished
  /\ Len(writes) < MaxWrites
  /\ total' = total + TokenBytes(c, w)
  /\ bufLen' = (bufLen + TokenBytes(c, w)) % 64
  /\ blocks' = blocks + ((bufLen + TokenBytes(c, w)) \div 64)
  /\ writes' = Append(writes, [k |-> k, c |-> c, w |-> w])
  /\ UNCHANGED finished

\* digestHex(): append 0x80, pad with zeros to 56 mod 64 (one extra block when bufLen >= 56), 64-bit length
Digest ==
  /\ ~finished
  /\ finished' = TRUE
  /\ blocks' = blocks + (IF bufLen + 1 > 56 THEN 2 ELSE 1)
  /\ bufLen' = 0
  /\ UNCHANGED <<total, writes>>

WNext == (\E n \in Sizes : Update(n)) \/ Digest
WSpec == WInit /\ [][WNext]_wvars
\* behaviours of the token layer: string / tag tokens of every explored length and width, then Digest
TNext == (\E k \in {"tag", "str"}, c \in TokChars, w \in TokWidths : Token(k, c, w)) \/ Digest
TSpec == WInit /\ [][TNext]_wvars
AnyNext == WNext \/ TNext

\* ------------------------------------------------------------------ properties
BufferIsRemainder == ~finished => (bufLen = total % 64 /\ bufLen \in 0..63)
BlocksBeforeDigest == ~finished => blocks = total \div 64
\* FIPS 180-4: the padded message is the smallest multiple of 64 bytes holding data + 0x80 + 8 length bytes
PaddedLength == finished => blocks * 64 = ((total + 1 + 8 + 63) \div 64) * 64
\* the length field is 8 * total bits (TLC integers are 32-bit: the high word is 0 for every explored total)
LengthBits(t) == t * 8
WriterOK == BufferIsRemainder /\ BlocksBeforeDigest /\ PaddedLength
\* nothing is enabled after Digest (the implementation throws)
DeadAfterDigest == finished => ~ENABLED AnyNext
=============================================================================

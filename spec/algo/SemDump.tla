--------------------------- MODULE SemDump ---------------------------
(***************************************************************************)
(* An independent membership function over the engine's own data: a        *)
(* ComplexSemType {all, subtype_data} as dumped by the harness, with its   *)
(* decision diagrams and the atom tables of the SemTypeContext they index  *)
(* into (property C06: "results evaluated by an independent membership     *)
(* function over the same atom tables").                                   *)
(* Atoms can be read in two ways (mapping.rs: positive atoms are exact,    *)
(* negated atoms are open): the Boolean laws must hold under either.       *)
(***************************************************************************)
EXTENDS SemLevel

TagOf(v) == CASE v.k = "null" -> "null" [] v.k = "bool" -> "boolean" [] v.k = "num" -> "number" [] v.k = "str" -> "string"
              [] v.k = "arr" -> "list" [] v.k = "obj" -> "mapping" [] v.k = "absent" -> "optionalProp"
              [] v.k = "big" -> "bigint" [] v.k = "date" -> "date" [] v.k = "ta" -> "typedArray" [] v.k = "map" -> "map" [] v.k = "set" -> "set"
              [] OTHER -> "other"

AtomDef(tab, i) == tab[CHOOSE j \in DOMAIN tab : tab[j].i = i].def
HasAtom(tab, i) == \E j \in DOMAIN tab : tab[j].i = i
GetOrAbsent(v, key) == IF HasKey(v, key) THEN Get(v, key) ELSE ABSENT

RECURSIVE DMem(_, _, _, _), EvalBddD(_, _, _, _, _)

\* v in mapping atom def = [vs: <<[key, ty]>>, ix: <<>> or <<[kt, vt]>>]
MapAtomMem(v, def, atoms, open) ==
  /\ v.k = "obj"
  /\ \A j \in DOMAIN def.vs : DMem(GetOrAbsent(v, def.vs[j].key), def.vs[j].ty, atoms, open)
  /\ \A key \in Keys(v) \ {def.vs[j].key : j \in DOMAIN def.vs} :
        IF def.ix # <<>> /\ DMem(VStr(key), def.ix[1].kt, atoms, open)
        THEN DMem(Get(v, key), def.ix[1].vt, atoms, open)
        ELSE open
ListAtomMem(v, def, atoms, open) ==
  /\ v.k = "arr"
  /\ Len(v.es) >= Len(def.prefix)
  /\ \A j \in DOMAIN def.prefix : DMem(v.es[j], def.prefix[j], atoms, open)
  /\ \A j \in (Len(def.prefix) + 1)..Len(v.es) : DMem(v.es[j], def.items, atoms, open)

\* a Map atom is a mapping atom without declared keys whose "index signature" is <key type, value type>: every entry is in both
\* (a Map has no undeclared keys to be open about); a Set atom is a list atom without prefix
MapKVAtomMem(v, def, atoms, open) ==
  /\ v.k = "map"
  /\ \A j \in DOMAIN v.es : def.ix # <<>> /\ DMem(v.es[j].mk, def.ix[1].kt, atoms, open) /\ DMem(v.es[j].mv, def.ix[1].vt, atoms, open)
SetAtomMem(v, def, atoms, open) ==
  /\ v.k = "set"
  /\ \A j \in DOMAIN v.es : DMem(v.es[j], def.items, atoms, open)

EvalBddD(b, v, kind, atoms, open) ==
  IF b.t = "T" THEN TRUE ELSE IF b.t = "F" THEN FALSE
  ELSE LET tab == CASE kind = "mapping" -> atoms.mapping [] kind = "list" -> atoms.list [] kind = "map" -> atoms.map [] OTHER -> atoms.set
           here == IF ~HasAtom(tab, b.a) THEN FALSE
                   ELSE CASE kind = "mapping" -> MapAtomMem(v, AtomDef(tab, b.a), atoms, open)
                          [] kind = "list" -> ListAtomMem(v, AtomDef(tab, b.a), atoms, open)
                          [] kind = "map" -> MapKVAtomMem(v, AtomDef(tab, b.a), atoms, open)
                          [] OTHER -> SetAtomMem(v, AtomDef(tab, b.a), atoms, open)
       IN EvalBddD(b.m, v, kind, atoms, open) \/ (IF here THEN EvalBddD(b.l, v, kind, atoms, open) ELSE EvalBddD(b.r, v, kind, atoms, open))

DMem(v, st, atoms, open) ==
  LET tag == TagOf(v) IN
  IF \E j \in DOMAIN st.all : st.all[j] = tag THEN TRUE
  ELSE IF ~\E j \in DOMAIN st.sub : st.sub[j].tag = tag THEN FALSE
  ELSE LET s == st.sub[CHOOSE j \in DOMAIN st.sub : st.sub[j].tag = tag] IN
       CASE tag = "boolean" -> v.b = s.b
         [] tag = "number"  -> (\E j \in DOMAIN s.lits : s.lits[j] = v.n) = s.allowed
         [] tag = "string"  -> (\E j \in DOMAIN s.lits : s.lits[j] = "lit:" \o v.s) = s.allowed
         [] tag \in {"mapping", "list", "map", "set"} -> EvalBddD(s.bdd, v, tag, atoms, open)
         [] tag = "typedArray" -> (\E j \in DOMAIN s.lits : s.lits[j] = v.c) = s.allowed
         [] OTHER -> FALSE
=============================================================================

--------------------------- MODULE Watch ---------------------------
(***************************************************************************)
(* C14: a long-lived compiler session (watch mode).                        *)
(*                                                                         *)
(* State:  disk    - current content variant of every file                 *)
(*         cache   - BUNDLER.files: the parsed variant held per file, or    *)
(*                   "none" (beff-wasm/src/lib.rs)                         *)
(*         watched - files handed out by read_file_content; the watch loop  *)
(*                   (ts-node/commandeer.ts) forwards changes of exactly    *)
(*                   these files to update_file_content and then rebuilds   *)
(*         out     - result of the last rebuild                             *)
(*         bound   - per cached module, the imports that resolved when it    *)
(*                   was parsed (ParsedModule.imports: resolution is frozen *)
(*                   into the cached module)                                *)
(* Actions: Create(f, c) / Delete(f): the file appears / disappears; the    *)
(*          watch loop subscribes to "change" events only, so nothing is    *)
(*          forwarded (deviation "createDeleteUnnoticed"; the intended      *)
(*          design invalidates the file and the modules importing it).      *)
(*          Edit(f, c) (the file changes on disk; if watched:               *)
(*          update_file_content_inner) and Rebuild (bundle: get_or_fetch_   *)
(*          file = cache first, else read + parse + insert).               *)
(* A content variant is abstract: ok variants differ in a literal that     *)
(* reaches the output and in whether m1 imports m2; "unres" parses but      *)
(* refers to a missing export; "broken" does not parse.                    *)
(***************************************************************************)
EXTENDS Naturals, Sequences, FiniteSets, TLC

CONSTANTS MaxSteps,
          Deviations      \* {} = intended design; "staleOnFailedParse": as found in the original code (fixed);
                          \* "createDeleteUnnoticed": creations / deletions of files reach the session only through the next
                          \* re-parse of the importing module (as implemented)

Files == {"entry", "m1", "m2"}
Variants(f) ==
  CASE f = "entry" -> {"e1", "e2", "e3n", "e4v", "ebroken"}   \* e1 / e2: different local literal; all import m1;
                                                            \* e3n also imports m2 directly; e4v uses a VALUE that m1 re-exports with `export *`
    [] f = "m1"    -> {"a1", "a2", "a3imp", "a4imp", "astar", "aunres", "abroken",   \* a3imp / a4imp import from m2; astar: export * from m2
                       \* texts that parse to the same syntax tree: a1d / a1e differ in a doc comment only (it reaches the output as a
                       \* description), aloc / aloc2 in blank lines and indentation only (the located diagnostic they cause moves)
                       "a1d", "a1e", "aloc", "aloc2"}
    [] f = "m2"    -> {"b1", "b2", "bbroken"}
Missing == "missing"                                         \* the file does not exist (only m2 comes and goes)
Parses(c) == c \notin {"ebroken", "abroken", "bbroken"}
Imports(f, c) == CASE f = "entry" -> IF c = "e3n" THEN {"m1", "m2"} ELSE {"m1"}
                   [] f = "m1" -> IF c \in {"a3imp", "a4imp", "astar"} THEN {"m2"} ELSE {}
                   [] OTHER -> {}
\* module resolution looks at the disk: an import of a file that does not exist does not resolve
Resolved(f, c, dk) == {g \in Imports(f, c) : dk[g] # Missing}
\* which of its imports a build follows: `export * from "./m2"` (astar) is only searched for a name that m1 does not declare
\* itself, i.e. when the entry asks for the value KV (e4v); explicit imports are followed always.  ec = the entry content in use.
Needed(f, c, ec) == IF f = "m1" /\ c = "astar" /\ ec # "e4v" THEN {} ELSE Imports(f, c)

VARIABLES disk, cache, bound, watched, out, built, steps
vars == <<disk, cache, bound, watched, out, built, steps>>

NoOut == [kind |-> "none", view |-> <<>>]

\* ------------------------------------------------------------------ one build
\* Load the files reachable from the entry through imports.  Returns [cache, watched, view] where
\* view[f] = the variant actually used for f, or "unreadable" (not cached and does not parse).
RECURSIVE LoadE(_, _, _, _, _, _, _)
\* view[f] = [c |-> content used, b |-> imports that are followed]
LoadE(todo, ca, bo, wa, view, dk, ec) ==
  IF todo = {} THEN [cache |-> ca, bound |-> bo, watched |-> wa, view |-> view]
  ELSE LET f == CHOOSE f \in todo : TRUE IN
       IF f \in DOMAIN view THEN LoadE(todo \ {f}, ca, bo, wa, view, dk, ec)
       ELSE IF ca[f] # "none"
            THEN LET fol == bo[f] \cap Needed(f, ca[f], ec) IN
                 LoadE((todo \ {f}) \cup fol, ca, bo, wa, (f :> [c |-> ca[f], b |-> fol]) @@ view, dk, ec)
            ELSE \* read_file_content + parse_and_bind
                 IF dk[f] = Missing
                 THEN LoadE(todo \ {f}, ca, bo, wa, (f :> [c |-> "unreadable", b |-> {}]) @@ view, dk, ec)    \* nothing to read, nothing to watch
                 ELSE IF Parses(dk[f])
                 THEN LET r == Resolved(f, dk[f], dk)  fol == r \cap Needed(f, dk[f], ec) IN
                      LoadE((todo \ {f}) \cup fol, [ca EXCEPT ![f] = dk[f]], [bo EXCEPT ![f] = r], wa \cup {f},
                            (f :> [c |-> dk[f], b |-> fol]) @@ view, dk, ec)
                 ELSE LoadE(todo \ {f}, ca, bo, wa \cup {f}, (f :> [c |-> "unreadable", b |-> {}]) @@ view, dk, ec)
\* the entry content a build uses: the cached module, else the text on disk
EntryInUse(ca, dk) == IF ca["entry"] # "none" THEN ca["entry"] ELSE dk["entry"]
Load(todo, ca, bo, wa, view, dk) == LoadE(todo, ca, bo, wa, view, dk, EntryInUse(ca, dk))

\* The observable result is a function of the contents used (the compiler is deterministic: C10)
Result(view) == [kind |-> "built", view |-> view]

Init == /\ disk \in [Files -> {"e1", "a1", "b1"}] /\ disk["entry"] = "e1" /\ disk["m1"] = "a1" /\ disk["m2"] = "b1"
        /\ cache = [f \in Files |-> "none"]
        /\ bound = [f \in Files |-> {}]
        /\ watched = {}
        /\ out = NoOut
        /\ built = FALSE
        /\ steps = 0

\* update_file_content_inner(f, c): replace the cache entry only if the new text parses
UpdateCache(ca, f, c) ==
  IF Parses(c) THEN [ca EXCEPT ![f] = c]
  ELSE IF "staleOnFailedParse" \in Deviations THEN ca           \* keeps the stale module
  ELSE [ca EXCEPT ![f] = "none"]                                 \* evicts it

Rebuild ==
  /\ steps < MaxSteps
  /\ LET r == Load({"entry"}, cache, bound, watched, <<>>, disk) IN
     /\ cache' = r.cache /\ bound' = r.bound /\ watched' = r.watched /\ out' = Result(r.view)
  /\ built' = TRUE
  /\ steps' = steps + 1
  /\ UNCHANGED disk

\* the file changes on disk; the watch loop reacts only for watched files: update (re-parse, re-bind) + rebuild
Edit(f, c) ==
  /\ steps < MaxSteps
  /\ c # disk[f] /\ c # Missing /\ disk[f] # Missing
  /\ disk' = [disk EXCEPT ![f] = c]
  /\ IF f \in watched
     THEN LET ca1 == UpdateCache(cache, f, c)
              bo1 == [bound EXCEPT ![f] = IF Parses(c) THEN Resolved(f, c, disk') ELSE {}]
              r == Load({"entry"}, ca1, bo1, watched, <<>>, disk') IN
          /\ cache' = r.cache /\ bound' = r.bound /\ watched' = r.watched /\ out' = Result(r.view) /\ built' = TRUE
     ELSE UNCHANGED <<cache, bound, watched, out>> /\ built' = FALSE      \* nobody rebuilds: out is stale until the next Rebuild
  /\ steps' = steps + 1

\* intended reaction to a file that appears or disappears: forget it and the cached modules that import it
Invalidate(ca, f) == [g \in Files |-> IF g = f \/ (ca[g] # "none" /\ f \in Imports(g, ca[g])) THEN "none" ELSE ca[g]]
CreateDelete(f, c) ==
  /\ disk' = [disk EXCEPT ![f] = c]
  /\ cache' = IF "createDeleteUnnoticed" \in Deviations THEN cache ELSE Invalidate(cache, f)
  /\ built' = FALSE
  /\ steps' = steps + 1
  /\ UNCHANGED <<bound, watched, out>>
Create(f, c) == steps < MaxSteps /\ f = "m2" /\ disk[f] = Missing /\ c # Missing /\ CreateDelete(f, c)
Delete(f)    == steps < MaxSteps /\ f = "m2" /\ disk[f] # Missing /\ CreateDelete(f, Missing)

Next == Rebuild \/ (\E f \in Files : \E c \in Variants(f) : Edit(f, c) \/ Create(f, c)) \/ \E f \in Files : Delete(f)
Spec == Init /\ [][Next]_vars

\* ------------------------------------------------------------------ the property
Fresh(dk) == Result(Load({"entry"}, [f \in Files |-> "none"], [f \in Files |-> {}], {}, <<>>, dk).view)
\* After every rebuild the output is the one a fresh process would produce for the current files.
\* (an edit of a file that is not watched triggers no rebuild: built = FALSE until the next Rebuild)
HistoryIndependent == built => out = Fresh(disk)

\* cache coherence (stronger, inductive): every cached module is the current content of its file
CacheCoherent == \A f \in Files : cache[f] # "none" => cache[f] = disk[f] /\ bound[f] = Resolved(f, cache[f], disk)
=============================================================================

--------------------------- MODULE Watch ---------------------------
(***************************************************************************)
(* C14: a long-lived compiler session (watch mode).                        *)
(*                                                                         *)
(* State:  disk    - current content variant of every file                 *)
(*         cache   - BUNDLER.files: the parsed variant held per file, or    *)
(*                   "none" (beff-wasm/src/lib.rs)                         *)
(*         watched - files handed out by read_file_content; the watch loop  *)
(*                   (ts-node/commandeer.ts) forwards changes of exactly    *)
(*                   these files to update_file_content and then rebuilds   *)
(*         out     - result of the last rebuild                             *)
(* Actions: Edit(f, c) (the file changes on disk; if watched:               *)
(*          update_file_content_inner) and Rebuild (bundle: get_or_fetch_   *)
(*          file = cache first, else read + parse + insert).               *)
(* A content variant is abstract: ok variants differ in a literal that     *)
(* reaches the output and in whether m1 imports m2; "unres" parses but      *)
(* refers to a missing export; "broken" does not parse.                    *)
(***************************************************************************)
EXTENDS Naturals, Sequences, FiniteSets, TLC

CONSTANTS MaxSteps,
          Deviations      \* {} = intended design; {"staleOnFailedParse"} = as found in the original code

Files == {"entry", "m1", "m2"}
Variants(f) ==
  CASE f = "entry" -> {"e1", "e2", "ebroken"}               \* e1 / e2: different local literal; both import m1
    [] f = "m1"    -> {"a1", "a2", "a3imp", "aunres", "abroken"}   \* a3imp re-exports from m2
    [] f = "m2"    -> {"b1", "b2", "bbroken"}
Parses(c) == c \notin {"ebroken", "abroken", "bbroken"}
Imports(f, c) == CASE f = "entry" -> {"m1"}
                   [] f = "m1" -> IF c \in {"a3imp"} THEN {"m2"} ELSE {}
                   [] OTHER -> {}

VARIABLES disk, cache, watched, out, built, steps
vars == <<disk, cache, watched, out, built, steps>>

NoOut == [kind |-> "none", view |-> <<>>]

\* ------------------------------------------------------------------ one build
\* Load the files reachable from the entry through imports.  Returns [cache, watched, view] where
\* view[f] = the variant actually used for f, or "unreadable" (not cached and does not parse).
RECURSIVE Load(_, _, _, _, _)
Load(todo, ca, wa, view, dk) ==
  IF todo = {} THEN [cache |-> ca, watched |-> wa, view |-> view]
  ELSE LET f == CHOOSE f \in todo : TRUE IN
       IF f \in DOMAIN view THEN Load(todo \ {f}, ca, wa, view, dk)
       ELSE IF ca[f] # "none"
            THEN Load((todo \ {f}) \cup Imports(f, ca[f]), ca, wa, (f :> ca[f]) @@ view, dk)
            ELSE \* read_file_content + parse_and_bind
                 IF Parses(dk[f])
                 THEN Load((todo \ {f}) \cup Imports(f, dk[f]), [ca EXCEPT ![f] = dk[f]], wa \cup {f}, (f :> dk[f]) @@ view, dk)
                 ELSE Load(todo \ {f}, ca, wa \cup {f}, (f :> "unreadable") @@ view, dk)

\* The observable result is a function of the contents used (the compiler is deterministic: C10)
Result(view) == [kind |-> "built", view |-> view]

Init == /\ disk \in [Files -> {"e1", "a1", "b1"}] /\ disk["entry"] = "e1" /\ disk["m1"] = "a1" /\ disk["m2"] = "b1"
        /\ cache = [f \in Files |-> "none"]
        /\ watched = {}
        /\ out = NoOut
        /\ built = FALSE
        /\ steps = 0

\* update_file_content_inner(f, c): replace the cache entry only if the new text parses
UpdateCache(ca, f, c) ==
  IF Parses(c) THEN [ca EXCEPT ![f] = c]
  ELSE IF "staleOnFailedParse" \in Deviations THEN ca           \* keeps the stale module
  ELSE [ca EXCEPT ![f] = "none"]                                 \* evicts it

Rebuild ==
  /\ steps < MaxSteps
  /\ LET r == Load({"entry"}, cache, watched, <<>>, disk) IN
     /\ cache' = r.cache /\ watched' = r.watched /\ out' = Result(r.view)
  /\ built' = TRUE
  /\ steps' = steps + 1
  /\ UNCHANGED disk

\* the file changes on disk; the watch loop reacts only for watched files: update + rebuild
Edit(f, c) ==
  /\ steps < MaxSteps
  /\ c # disk[f]
  /\ disk' = [disk EXCEPT ![f] = c]
  /\ IF f \in watched
     THEN LET ca1 == UpdateCache(cache, f, c)
              r == Load({"entry"}, ca1, watched, <<>>, disk') IN
          /\ cache' = r.cache /\ watched' = r.watched /\ out' = Result(r.view) /\ built' = TRUE
     ELSE UNCHANGED <<cache, watched, out>> /\ built' = FALSE      \* nobody rebuilds: out is stale until the next Rebuild
  /\ steps' = steps + 1

Next == Rebuild \/ \E f \in Files : \E c \in Variants(f) : Edit(f, c)
Spec == Init /\ [][Next]_vars

\* ------------------------------------------------------------------ the property
Fresh(dk) == Result(Load({"entry"}, [f \in Files |-> "none"], {}, <<>>, dk).view)
\* After every rebuild the output is the one a fresh process would produce for the current files.
\* (an edit of a file that is not watched triggers no rebuild: built = FALSE until the next Rebuild)
HistoryIndependent == built => out = Fresh(disk)

\* cache coherence (stronger, inductive): every cached module is the current content of its file
CacheCoherent == \A f \in Files : cache[f] # "none" => cache[f] = disk[f]
=============================================================================

--------------------------- MODULE SchemaCtx ---------------------------
(***************************************************************************)
(* C16: SchemaPrintingContext as a state machine over call sequences.      *)
(*                                                                         *)
(* State of the context (codegen-v2.ts SchemaPrintingContext):             *)
(*   col  : name -> source of the stored definition ("own" | "override")   *)
(*   prog : names marked in progress                                       *)
(* One action per schemaWithContext(p) call; inside a call the traversal   *)
(* is the algorithm of BaseRefRuntype.schema (contextual branch) and       *)
(* AnyOfDiscriminatedRuntype.ensureContextualDefinition, transcribed as    *)
(* Visit: MarkInProgress / Recurse / Store.                                *)
(*                                                                         *)
(* The project (types, parsers, overrides) is fixed below; it is rendered  *)
(* to TypeScript by the harness and every behaviour of this machine is     *)
(* replayed on a real SchemaPrintingContext.                               *)
(***************************************************************************)
EXTENDS BeffTypes, SequencesExt

CONSTANTS MaxCalls,      \* length bound of call sequences
          Deviations     \* {} = design as intended; {"discIgnoresOverride"} = as implemented

\* ------------------------------------------------------------------ the project
\* (properties are listed in sorted key order: that is the order in which the emitted ObjectRuntype visits them, and the
\* order matters for what is already stored when a print throws)
O1(k1, t1) == Obj(<<Prop(k1, t1, FALSE)>>, <<>>)
O2(k1, t1, k2, t2) == Obj(<<Prop(k1, t1, FALSE), Prop(k2, t2, FALSE)>>, <<>>)
O2o(k1, t1, k2, t2) == Obj(<<Prop(k1, t1, FALSE), Prop(k2, t2, TRUE)>>, <<>>)

Env == <<
  [n |-> "Tree",   kind |-> "type", ty |-> O2("v", TNumber, "kids", Arr(Ref("Tree")))],
  [n |-> "A",      kind |-> "type", ty |-> O2o("kind", LS("a"), "b", Ref("B"))],
  [n |-> "B",      kind |-> "type", ty |-> O2o("kind", LS("b"), "a", Ref("A"))],
  [n |-> "VA",     kind |-> "type", ty |-> O2("k", LS("x"), "x", TNumber)],
  [n |-> "VB",     kind |-> "type", ty |-> O2("k", LS("y"), "y", TString)],
  [n |-> "U",      kind |-> "type", ty |-> Uni(<<Ref("VA"), Ref("VB")>>)],
  [n |-> "Holder", kind |-> "type", ty |-> O2("u", Ref("U"), "va", Ref("VA"))],
  [n |-> "Inline", kind |-> "type", ty |-> Uni(<<O2("k", LS("p"), "p", TNumber), O2("k", LS("q"), "q", TString)>>)],
  [n |-> "VAo",    kind |-> "type", ty |-> O2("k", LS("x"), "x", TString)],
  [n |-> "Bad",    kind |-> "type", ty |-> O1("d", Prim("Date"))],
  [n |-> "P2",     kind |-> "type", ty |-> O2("x", Ref("Bad"), "y", TString)],
  \* discriminated unions with a variant that cannot be printed (named and inline), first met through the union
  [n |-> "VD",     kind |-> "type", ty |-> O2("k", LS("d"), "d", Prim("Date"))],
  [n |-> "UD",     kind |-> "type", ty |-> Uni(<<Ref("VB"), Ref("VD")>>)],
  [n |-> "InlineD", kind |-> "type", ty |-> Uni(<<O2("k", LS("p"), "p", TNumber), O2("k", LS("dd"), "d", Prim("Date"))>>)],
  [n |-> "HD",     kind |-> "type", ty |-> O2("i", Ref("InlineD"), "ud", Ref("UD"))],
  \* a printable type that refers back to an unprintable one: what stays in the context when printing A2 throws?
  [n |-> "A2",     kind |-> "type", ty |-> O2("b", Ref("B2"), "m", MapT(TString, TNumber))],
  [n |-> "B2",     kind |-> "type", ty |-> O2o("x", TNumber, "a", Ref("A2"))],
  [n |-> "PB2",    kind |-> "type", ty |-> O1("b", Ref("B2"))],
  \* names that are special for JavaScript objects (Object.prototype members) and for String.replace ($$ patterns)
  [n |-> "toString", kind |-> "type", ty |-> O1("t", TNumber)],
  [n |-> "A$$B",   kind |-> "type", ty |-> O1("d", TNumber)],
  [n |-> "HN",     kind |-> "type", ty |-> O2("p", Ref("toString"), "q", Ref("A$$B"))],
  \* documented references to a named type (the description belongs to the referring site, not to the definition)
  [n |-> "HJ",     kind |-> "type", ty |-> O2("home", Deco("jsdoc", Ref("VB")), "work", Deco("jsdoc", Ref("VB")))],
  \* unions of inline variants (their definitions get generated names) that differ only in a JSDoc, and only in
  \* true / "true" (one 32-bit hash): what one of them stores must not be taken for the other's
  [n |-> "InDocA", kind |-> "type", ty |-> Uni(<<O2("k", LS("dp"), "p", Deco("jsdoc", TNumber)), O2("k", LS("dq"), "q", TString)>>)],
  [n |-> "InDocB", kind |-> "type", ty |-> Uni(<<O2("k", LS("dp"), "p", TNumber), O2("k", LS("dq"), "q", TString)>>)],
  [n |-> "InFlagA", kind |-> "type", ty |-> Uni(<<O2("k", LS("fa"), "flag", LB(TRUE)), O2("k", LS("fb"), "q", TString)>>)],
  [n |-> "InFlagB", kind |-> "type", ty |-> Uni(<<O2("k", LS("fa"), "flag", LS("true")), O2("k", LS("fb"), "q", TString)>>)],
  \* an intersection of named types that is recursive through one of its members, with two ways into the cycle: what is stored
  \* for Rpl must not depend on whether Cmt was complete, in progress or unknown when the intersection was printed
  [n |-> "Aud",    kind |-> "type", ty |-> O1("by", TString)],
  [n |-> "Cmt",    kind |-> "type", ty |-> O2("replies", Arr(Ref("Rpl")), "text", TString)],
  [n |-> "Rpl",    kind |-> "type", ty |-> Inter(<<Ref("Aud"), Ref("Cmt")>>)],
  [n |-> "Feed",   kind |-> "type", ty |-> O1("items", Arr(Ref("Rpl")))],
  [n |-> "Page",   kind |-> "type", ty |-> O1("root", Ref("Cmt"))]
>>
Parsers == {"Tree", "A", "B", "U", "Holder", "Inline", "VA", "Bad", "P2", "VD", "UD", "InlineD", "HD", "VB", "A2", "PB2", "HN", "HJ", "InDocA", "InDocB", "InFlagA", "InFlagB", "Rpl", "Feed", "Page"}
\* configuration with namedTypeSchemaOverrides: VA is printed as VAo
Overrides == [VA |-> "VAo"]
Names == {Env[i].n : i \in DOMAIN Env}

\* printer.rs maybe_runtype_any_of_discriminated, on this project: a union all of whose members are
\* (references to) object types sharing a required key whose types are distinct string literals
RECURSIVE Resolve(_)
Resolve(T) == IF T.t = "ref" THEN Resolve(Lookup(Env, T.n)) ELSE T
IsDisc(T) ==
  /\ T.t = "union"
  /\ \A i \in DOMAIN T.ms : Resolve(T.ms[i]).t = "obj"
  /\ \E key \in {"k", "kind"} :
       /\ \A i \in DOMAIN T.ms : \E j \in DOMAIN Resolve(T.ms[i]).ps :
             LET p == Resolve(T.ms[i]).ps[j] IN p.key = key /\ ~p.opt /\ p.ty.t = "lit" /\ p.ty.v.k = "str"
       /\ Cardinality({ LET o == Resolve(T.ms[i]) IN o.ps[CHOOSE j \in DOMAIN o.ps : o.ps[j].key = key].ty
                        : i \in DOMAIN T.ms }) > 1

\* sorted order of the discriminator values used in the project (TLC cannot compare strings)
LitOrder == <<"a", "b", "d", "dd", "dp", "dq", "fa", "fb", "p", "q", "x", "y">>
DiscRank(m) == LET o == Resolve(m)
                   lits == {o.ps[j].ty.v.s : j \in {j \in DOMAIN o.ps : o.ps[j].key \in {"k", "kind"} /\ o.ps[j].ty.t = "lit"}}
               IN CHOOSE i \in DOMAIN LitOrder : LitOrder[i] \in lits

\* ------------------------------------------------------------------ the traversal
St(col, prog, err) == [col |-> col, prog |-> prog, err |-> err]
Known(st, n) == n \in DOMAIN st.col \/ n \in st.prog
Store(st, n, src) == St((n :> src) @@ st.col, st.prog \ {n}, st.err)

RECURSIVE Visit(_, _, _, _), VisitSeq(_, _, _, _, _)
\* useOv: whether overrides are honoured on this path.  err: printing threw (Date etc. cannot be printed);
\* the exception unwinds the traversal.
Visit(T, st, useOv, ovs) ==
  IF st.err THEN st ELSE
  CASE T.t = "ref" ->
         IF Known(st, T.n) THEN st
         ELSE LET ov == useOv /\ T.n \in DOMAIN ovs
                  \* the override is a parser of a named type, i.e. itself a reference (it gets its own definition)
                  target == IF ov THEN Ref(ovs[T.n]) ELSE Lookup(Env, T.n)
                  st1 == Visit(target, St(st.col, st.prog \cup {T.n}, FALSE), TRUE, ovs)
              IN IF st1.err
                 THEN \* intended: the in-progress mark is removed while unwinding (try/finally);
                      \* deviation "throwLeavesInProgress": the mark stays
                      IF "throwLeavesInProgress" \in Deviations THEN st1 ELSE St(st1.col, st1.prog \ {T.n}, TRUE)
                 ELSE Store(st1, T.n, IF ov THEN "override" ELSE "own")
    [] T.t = "prim" -> IF T.p \in {"Date", "bigint", "function"} THEN St(st.col, st.prog, TRUE) ELSE st
    [] T.t \in {"map", "set", "ta"} -> St(st.col, st.prog, TRUE)
    [] T.t = "union" ->
         IF IsDisc(T)
         THEN \* getSchemaVariantRefs: every variant becomes a definition; named variants go through
              \* ensureContextualDefinition, which does not consult the overrides (deviation)
              \* in the order of their discriminator values (the emitted mapping object is keyed by them, sorted)
              VisitSeq(SortSeq(T.ms, LAMBDA a, b : DiscRank(a) < DiscRank(b)), 1, st, "discIgnoresOverride" \notin Deviations, ovs)
         ELSE VisitSeq(T.ms, 1, st, TRUE, ovs)
    [] T.t = "inter" -> VisitSeq(T.ms, 1, st, TRUE, ovs)
    [] T.t = "arr"   -> Visit(T.e, st, TRUE, ovs)
    [] T.t = "tuple" -> VisitSeq(T.es \o T.r, 1, st, TRUE, ovs)
    [] T.t = "obj"   -> VisitSeq([i \in DOMAIN T.ps |-> T.ps[i].ty] \o [i \in DOMAIN T.ix |-> T.ix[i].vt], 1, st, TRUE, ovs)
    [] T.t = "deco"  -> Visit(T.a, st, useOv, ovs)
    [] OTHER -> st
VisitSeq(ts, i, st, useOv, ovs) ==
  IF i > Len(ts) \/ st.err THEN st
  ELSE LET t == ts[i]
           \* in a discriminated union only *named* variants are affected by useOv; inline variants get synthetic names
           st1 == IF t.t = "ref" THEN Visit(t, st, useOv, ovs) ELSE Visit(t, st, TRUE, ovs)
       IN VisitSeq(ts, i + 1, st1, useOv, ovs)

\* ------------------------------------------------------------------ the machine
VARIABLES calls, ctx, useOverrides, lastOk
vars == <<calls, ctx, useOverrides, lastOk>>

Init == /\ calls = <<>>
        /\ ctx = St(<<>>, {}, FALSE)
        /\ useOverrides \in BOOLEAN
        /\ lastOk = TRUE

\* one schemaWithContext(p) call; err is per call
CallResult(p, st, ov) == Visit(Ref(p), St(st.col, st.prog, FALSE), TRUE, IF ov THEN Overrides ELSE <<>>)

Call(p) ==
  /\ Len(calls) < MaxCalls
  /\ calls' = Append(calls, p)
  /\ LET r == CallResult(p, ctx, useOverrides) IN
     \* a call that throws leaves the context as it was (schemaWithContext rolls back); deviation "failedPrintKeepsDefinitions":
     \* the definitions completed before the failure stay - they may refer to the name that failed and is never exported
     /\ ctx' = IF r.err /\ "failedPrintKeepsDefinitions" \notin Deviations THEN St(ctx.col, {}, FALSE) ELSE St(r.col, r.prog, FALSE)
     /\ lastOk' = ~r.err
  /\ UNCHANGED useOverrides

Next == \E p \in Parsers : Call(p)
Spec == Init /\ [][Next]_vars

\* ------------------------------------------------------------------ properties of the design
\* what a fresh context stores for name n (printing n alone)
FreshSrc(n) == IF useOverrides /\ n \in DOMAIN Overrides THEN "override" ELSE "own"

RECURSIVE RefsIn(_)
RefsIn(T) ==
  CASE T.t = "ref" -> {T.n}
    [] T.t \in {"union", "inter"} -> UNION {RefsIn(T.ms[i]) : i \in DOMAIN T.ms}
    [] T.t = "arr" -> RefsIn(T.e)
    [] T.t = "tuple" -> UNION {RefsIn((T.es \o T.r)[i]) : i \in DOMAIN (T.es \o T.r)}
    [] T.t = "obj" -> UNION ({RefsIn(T.ps[i].ty) : i \in DOMAIN T.ps} \cup {RefsIn(T.ix[i].vt) : i \in DOMAIN T.ix})
    [] T.t = "deco" -> RefsIn(T.a)
    [] OTHER -> {}
BodyFor(n, src) == IF src = "override" THEN Ref(Overrides[n]) ELSE Lookup(Env, n)
BodyOf(n) == BodyFor(n, ctx.col[n])

\* a fresh context printing p alone: does it throw?
FreshThrows(p) == CallResult(p, St(<<>>, {}, FALSE), useOverrides).err

NothingInProgress == ctx.prog = {}
EveryDefinitionIsFresh == \A n \in DOMAIN ctx.col : ctx.col[n] = FreshSrc(n)
RefsClosed == \A n \in DOMAIN ctx.col : RefsIn(BodyOf(n)) \subseteq DOMAIN ctx.col
\* a call succeeds in this context exactly when it succeeds in a fresh one
\* (a name left in progress makes a later print return a $ref that never resolves)
SameOutcomeAsFresh == calls # <<>> => (lastOk = ~FreshThrows(calls[Len(calls)]))
\* order independence: the stored names are those reachable from the printable parsers called so far
Printable == {calls[i] : i \in {i \in DOMAIN calls : ~FreshThrows(calls[i])}}
ExpectedNames == LET RECURSIVE Reach(_, _)
                     Reach(ns, seen) == IF ns \subseteq seen THEN seen
                                        ELSE LET n == CHOOSE n \in ns \ seen : TRUE
                                             IN Reach((ns \cup RefsIn(BodyFor(n, FreshSrc(n)))), seen \cup {n})
                 IN Reach(Printable, {})
\* exactly the expected names, and nothing but fresh definitions
OrderIndependent == ExpectedNames = DOMAIN ctx.col /\ EveryDefinitionIsFresh

DesignOK == NothingInProgress /\ RefsClosed /\ OrderIndependent /\ SameOutcomeAsFresh
=============================================================================

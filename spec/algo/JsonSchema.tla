--------------------------- MODULE JsonSchema ---------------------------
(***************************************************************************)
(* JSON Schema (Draft 2020-12) for the keyword subset beff emits, over     *)
(* value terms: a schema is itself a JSON document, logged by the driver   *)
(* with the same codec as every other value (objects are VObj terms).      *)
(*   WellFormed(s)        - operands of known keywords have the types the  *)
(*                          meta-schema demands                            *)
(*   Refs(s)              - all $ref strings                               *)
(*   V3(d, s, R)          - validity of document d, three-valued ("X" only *)
(*                          when a pattern verdict is not in the table)    *)
(* R = [defs |-> VObj of definitions, pre |-> ref prefix, suf |-> suffix,  *)
(*      pats |-> pattern table logged by the harness (python re)]          *)
(***************************************************************************)
EXTENDS BeffSem

SHas(s, key) == s.k = "obj" /\ HasKey(s, key)
SGet(s, key) == Get(s, key)
IsStrV(v) == v.k = "str"
IsSchemaShape(v) == v.k \in {"obj", "bool"}

JsonTypeNames == {"null", "boolean", "object", "array", "number", "string", "integer"}

RECURSIVE JsonEq(_, _)
JsonEq(a, b) ==
  IF a.k # b.k THEN FALSE
  ELSE CASE a.k = "obj" -> Keys(a) = Keys(b) /\ \A key \in Keys(a) : JsonEq(Get(a, key), Get(b, key))
         [] a.k = "arr" -> Len(a.es) = Len(b.es) /\ \A i \in DOMAIN a.es : JsonEq(a.es[i], b.es[i])
         [] OTHER -> a = b

HasJsonType(d, tn) ==
  CASE tn = "null"    -> d.k = "null"
    [] tn = "boolean" -> d.k = "bool"
    [] tn = "object"  -> d.k = "obj"
    [] tn = "array"   -> d.k = "arr"
    [] tn = "number"  -> d.k = "num"
    [] tn = "integer" -> d.k = "num" /\ d.n \in NumInt
    [] tn = "string"  -> d.k = "str"
    [] OTHER -> FALSE

\* ------------------------------------------------------------------ well-formedness
SchemaArrayKeys == {"anyOf", "oneOf", "allOf", "prefixItems"}
SchemaKeys      == {"items", "additionalProperties", "propertyNames", "not", "contains"}

RECURSIVE WfComplaints(_)
\* set of complaint strings; empty = well formed
WfComplaints(s) ==
  IF s.k = "bool" THEN {}
  ELSE IF s.k # "obj" THEN {"schema-is-not-object-or-boolean"}
  ELSE
    (IF SHas(s, "type") THEN
        LET t == SGet(s, "type") IN
        IF t.k = "str" THEN (IF t.s \in JsonTypeNames THEN {} ELSE {"type-unknown-name"})
        ELSE IF t.k = "arr" THEN (IF \A i \in DOMAIN t.es : t.es[i].k = "str" /\ t.es[i].s \in JsonTypeNames THEN {} ELSE {"type-array-bad-member"})
        ELSE {"type-not-string-or-array"}
     ELSE {})
    \cup (IF SHas(s, "enum") /\ SGet(s, "enum").k # "arr" THEN {"enum-not-array"} ELSE {})
    \cup (IF SHas(s, "required") THEN
            LET r == SGet(s, "required") IN
            IF r.k # "arr" THEN {"required-not-array"}
            ELSE IF \E i \in DOMAIN r.es : r.es[i].k # "str" THEN {"required-member-not-string"}
            ELSE IF \E i, j \in DOMAIN r.es : i # j /\ r.es[i] = r.es[j] THEN {"required-not-unique"} ELSE {}
          ELSE {})
    \cup (IF SHas(s, "properties") THEN
            LET p == SGet(s, "properties") IN
            IF p.k # "obj" THEN {"properties-not-object"}
            ELSE UNION {WfComplaints(p.ps[i].v) : i \in DOMAIN p.ps}
          ELSE {})
    \cup UNION { IF SHas(s, key) THEN
                   LET a == SGet(s, key) IN
                   IF a.k # "arr" THEN {key \o "-not-array"}
                   ELSE IF a.es = <<>> THEN {key \o "-empty"}      \* meta-schema schemaArray: minItems 1
                   ELSE UNION {WfComplaints(a.es[i]) : i \in DOMAIN a.es}
                 ELSE {} : key \in SchemaArrayKeys }
    \cup UNION { IF SHas(s, key) THEN WfComplaints(SGet(s, key)) ELSE {} : key \in SchemaKeys }
    \cup (IF SHas(s, "$ref") /\ SGet(s, "$ref").k # "str" THEN {"ref-not-string"} ELSE {})
    \cup (IF SHas(s, "pattern") /\ SGet(s, "pattern").k # "str" THEN {"pattern-not-string"} ELSE {})
    \cup (IF SHas(s, "format") /\ SGet(s, "format").k # "str" THEN {"format-not-string"} ELSE {})
    \cup (IF SHas(s, "description") /\ SGet(s, "description").k # "str" THEN {"description-not-string"} ELSE {})
    \cup UNION { IF SHas(s, key) /\ ~(SGet(s, key).k = "num" /\ SGet(s, key).n \in NumInt /\ SGet(s, key).n # "-1")
                 THEN {key \o "-not-nonneg-integer"} ELSE {} : key \in {"minItems", "maxItems"} }

RECURSIVE Refs(_)
Refs(s) ==
  IF s.k = "obj" THEN
     (IF SHas(s, "$ref") /\ SGet(s, "$ref").k = "str" THEN {SGet(s, "$ref").s} ELSE {})
     \cup UNION {Refs(s.ps[i].v) : i \in {i \in DOMAIN s.ps : s.ps[i].key \notin {"const", "enum", "discriminator"}}}
     \cup (IF SHas(s, "discriminator") /\ SGet(s, "discriminator").k = "obj" /\ SHas(SGet(s, "discriminator"), "mapping")
              /\ SGet(SGet(s, "discriminator"), "mapping").k = "obj"
           THEN LET m == SGet(SGet(s, "discriminator"), "mapping") IN
                {m.ps[i].v.s : i \in {i \in DOMAIN m.ps : m.ps[i].v.k = "str"}}
           ELSE {})
  ELSE IF s.k = "arr" THEN UNION {Refs(s.es[i]) : i \in DOMAIN s.es}
  ELSE {}

RefName(ref, R) ==  \* the definition name a $ref points to, or "" when it does not follow the template
  LET lp == Len(R.pre)  ls == Len(R.suf)  lr == Len(ref) IN
  IF lr >= lp + ls /\ SubSeq(ref, 1, lp) = R.pre /\ SubSeq(ref, lr - ls + 1, lr) = R.suf
  THEN SubSeq(ref, lp + 1, lr - ls) ELSE ""
RefResolves(ref, R) == LET n == RefName(ref, R) IN HasKey(R.defs, n)

\* ------------------------------------------------------------------ validity
PatVerdict(p, s, R) ==
  IF \E i \in DOMAIN R.pats : R.pats[i].p = p /\ R.pats[i].s = s
  THEN B3(R.pats[CHOOSE i \in DOMAIN R.pats : R.pats[i].p = p /\ R.pats[i].s = s].m)
  ELSE "X"

RECURSIVE V3(_, _, _, _)
\* fuel bounds $ref chains that do not descend into the document
V3(d, s, R, fuel) ==
  IF s.k = "bool" THEN B3(s.b)
  ELSE IF s.k # "obj" THEN "X"
  ELSE And3(
    { IF SHas(s, "$ref") THEN
         LET ref == SGet(s, "$ref") IN
         IF ref.k = "str" /\ RefResolves(ref.s, R) /\ fuel > 0
         THEN V3(d, Get(R.defs, RefName(ref.s, R)), R, fuel - 1) ELSE "X"
      ELSE "T" }
    \cup
    { IF SHas(s, "type") THEN
         LET t == SGet(s, "type") IN
         IF t.k = "str" THEN B3(HasJsonType(d, t.s))
         ELSE IF t.k = "arr" THEN B3(\E i \in DOMAIN t.es : t.es[i].k = "str" /\ HasJsonType(d, t.es[i].s))
         ELSE "X"
      ELSE "T" }
    \cup { IF SHas(s, "const") THEN B3(JsonEq(d, SGet(s, "const"))) ELSE "T" }
    \cup { IF SHas(s, "enum") /\ SGet(s, "enum").k = "arr"
           THEN B3(\E i \in DOMAIN SGet(s, "enum").es : JsonEq(d, SGet(s, "enum").es[i])) ELSE "T" }
    \cup { IF SHas(s, "anyOf") /\ SGet(s, "anyOf").k = "arr"
           THEN Or3({V3(d, SGet(s, "anyOf").es[i], R, fuel) : i \in DOMAIN SGet(s, "anyOf").es}) ELSE "T" }
    \cup { IF SHas(s, "allOf") /\ SGet(s, "allOf").k = "arr"
           THEN And3({V3(d, SGet(s, "allOf").es[i], R, fuel) : i \in DOMAIN SGet(s, "allOf").es}) ELSE "T" }
    \cup { IF SHas(s, "oneOf") /\ SGet(s, "oneOf").k = "arr"
           THEN LET vs == [i \in DOMAIN SGet(s, "oneOf").es |-> V3(d, SGet(s, "oneOf").es[i], R, fuel)]
                    nT == Cardinality({i \in DOMAIN vs : vs[i] = "T"})
                    nX == Cardinality({i \in DOMAIN vs : vs[i] = "X"})
                IN IF nX = 0 THEN B3(nT = 1) ELSE IF nT > 1 THEN "F" ELSE "X"
           ELSE "T" }
    \cup { IF SHas(s, "not") THEN Not3(V3(d, SGet(s, "not"), R, fuel)) ELSE "T" }
    \* format: read as an assertion against the formats registered by the driver (f1, f2, n1, n2); beff joins
    \* several formats with " and "; any other format name is an annotation of unknown meaning (don't care)
    \cup { IF SHas(s, "format") /\ SGet(s, "format").k = "str" THEN
             LET f == SGet(s, "format").s
                 names == CASE f = "f1" -> <<"f1">> [] f = "f2" -> <<"f2">> [] f = "f1 and f2" -> <<"f1", "f2">>
                            [] f = "n1" -> <<"n1">> [] f = "n2" -> <<"n2">> [] f = "n1 and n2" -> <<"n1", "n2">>
                            [] OTHER -> <<>>
             \* ("f1" names a string format and a number format: the document's kind selects the predicate)
             IN IF d.k = "str" THEN (IF names = <<>> THEN "X" ELSE B3(\A i \in DOMAIN names : StrFmtOk(names[i], d.s)))
                ELSE IF d.k = "num" THEN (IF names = <<>> THEN "X" ELSE B3(\A i \in DOMAIN names : NumFmtOk(names[i], d.n)))
                ELSE "T"
           ELSE "T" }
    \cup { IF d.k = "str" /\ SHas(s, "pattern") /\ SGet(s, "pattern").k = "str"
           THEN PatVerdict(SGet(s, "pattern").s, d.s, R) ELSE "T" }
    \cup ( IF d.k = "obj" THEN
             { IF SHas(s, "required") /\ SGet(s, "required").k = "arr"
               THEN B3(\A i \in DOMAIN SGet(s, "required").es :
                          SGet(s, "required").es[i].k = "str" => HasKey(d, SGet(s, "required").es[i].s))
               ELSE "T" }
             \cup { IF SHas(s, "properties") /\ SGet(s, "properties").k = "obj"
                    THEN LET p == SGet(s, "properties") IN
                         And3({ V3(Get(d, key), Get(p, key), R, fuel) : key \in Keys(d) \cap Keys(p) })
                    ELSE "T" }
             \cup { IF SHas(s, "additionalProperties")
                    THEN LET declared == IF SHas(s, "properties") /\ SGet(s, "properties").k = "obj" THEN Keys(SGet(s, "properties")) ELSE {} IN
                         And3({ V3(Get(d, key), SGet(s, "additionalProperties"), R, fuel) : key \in Keys(d) \ declared })
                    ELSE "T" }
             \cup { IF SHas(s, "propertyNames")
                    THEN And3({ V3(VStr(key), SGet(s, "propertyNames"), R, fuel) : key \in Keys(d) })
                    ELSE "T" }
           ELSE {} )
    \cup ( IF d.k = "arr" THEN
             LET npre == IF SHas(s, "prefixItems") /\ SGet(s, "prefixItems").k = "arr" THEN Len(SGet(s, "prefixItems").es) ELSE 0 IN
             { IF npre > 0
               THEN And3({ V3(d.es[i], SGet(s, "prefixItems").es[i], R, fuel) : i \in 1..(IF Len(d.es) < npre THEN Len(d.es) ELSE npre) })
               ELSE "T" }
             \cup { IF SHas(s, "items")
                    THEN And3({ V3(d.es[i], SGet(s, "items"), R, fuel) : i \in (npre + 1)..Len(d.es) })
                    ELSE "T" }
             \cup { IF SHas(s, "minItems") /\ SGet(s, "minItems").k = "num"
                    THEN LET n == SGet(s, "minItems").n IN
                         IF n = "0" THEN "T" ELSE IF n = "1" THEN B3(Len(d.es) >= 1) ELSE IF n = "2" THEN B3(Len(d.es) >= 2)
                         ELSE IF n = "3" THEN B3(Len(d.es) >= 3) ELSE "X"
                    ELSE "T" }
             \cup { IF SHas(s, "maxItems") /\ SGet(s, "maxItems").k = "num"
                    THEN LET n == SGet(s, "maxItems").n IN
                         IF n = "0" THEN B3(Len(d.es) <= 0) ELSE IF n = "1" THEN B3(Len(d.es) <= 1) ELSE IF n = "2" THEN B3(Len(d.es) <= 2)
                         ELSE IF n = "3" THEN B3(Len(d.es) <= 3) ELSE "X"
                    ELSE "T" }
           ELSE {} ) )
=============================================================================

--------------------------- MODULE Determinism ---------------------------
(***************************************************************************)
(* C10: the output is a function of (file contents, settings) only.        *)
(*                                                                         *)
(* Part 1 (generator): projects with MANY symbols per table - a module     *)
(* with N exported values of kinds that beff can or cannot type, reached   *)
(* through a namespace import / named imports / export-star - so that      *)
(* iteration order over symbol tables and the choice among several         *)
(* simultaneous failures can show.  A state is one project.                *)
(* Part 2 (property): the history variable out remembers the first output  *)
(* observed for a project; every further compilation (another OS process = *)
(* fresh hash seeds, another file registration order) must equal it.       *)
(***************************************************************************)
EXTENDS Naturals, Sequences, FiniteSets, TLC

CONSTANTS NExports

Kinds == {"str", "num", "obj", "regex", "class", "date", "arrow", "tpl"}
Styles == {"namespace", "named", "star", "nsobject"}

VARIABLES kinds, style, shape, width
gvars == <<kinds, style, shape, width>>
GInit == kinds \in [1..NExports -> Kinds] /\ style \in Styles /\ shape = "none" /\ width = 0
GNext == UNCHANGED gvars
GSpec == GInit /\ [][GNext]_gvars

\* Part 1b: "wide" type-level projects - N alternatives wherever the compiler picks one or numbers things in iteration order:
\* several candidate discriminator keys, many properties / union members / aliases / requested parsers / enum members /
\* generic instantiations.  A state is (shape, width); lib/p_determinism.py renders it.
Shapes == {"multidisc", "manyprops", "manyaliases", "manyroots", "manyenums", "manygenerics", "nesteddisc", "intersections",
           \* several files written from one template: documentation comments at the same offsets in different files
           "twindocs"}
WInit == shape \in Shapes /\ width \in 2..(NExports + 3) /\ kinds = <<>> /\ style = "none"
WSpec == WInit /\ [][UNCHANGED gvars]_gvars

\* Part 1c: computed types over recursive operands - the engine writes them back under generated names (RecursiveGeneratedN),
\* so the output shows whatever numbering state outlives a compilation.  A state is (recursive shape, type operator).
RecShapes == {"tuplerest", "optnext", "nullnext", "kids", "twokids", "twotuples"}
RecOps    == {"exclude", "nonnullable", "keyof", "index"}
RInit == shape \in RecShapes /\ style \in RecOps /\ kinds = <<>> /\ width = 0
RSpec == RInit /\ [][UNCHANGED gvars]_gvars

\* ------------------------------------------------------------------ the property as a monitor over observations
\* obs: sequence of [proj, order, pid, digest]
FunctionOfContents(obs) ==
  \A i, j \in DOMAIN obs : obs[i].proj = obs[j].proj => obs[i].digest = obs[j].digest
=============================================================================

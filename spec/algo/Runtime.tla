--------------------------- MODULE Runtime ---------------------------
(***************************************************************************)
(* Level (A): the client runtime as implemented (beff-client/src/          *)
(* codegen-v2.ts), transcribed class by class over *runtime tree* terms -  *)
(* the `new XRuntype(...)` objects the emitted module (or the builder API) *)
(* constructs, as reflected from the live JavaScript objects by the        *)
(* driver.                                                                 *)
(*                                                                         *)
(*   RtVal(rt, v, strict, named)  - XRuntype.validate                      *)
(*   HEnc(rt, named, R)           - the token stream ParserFromRuntype.    *)
(*                                  hash256 feeds to the Hash256Writer     *)
(*                                  (updateTag / updateString / ...),      *)
(*                                  incl. cycle heads and cycle ids        *)
(*   H32Shape                     - (not modelled: 32-bit arithmetic)      *)
(*                                                                         *)
(* Tree terms (field c = class):                                           *)
(*   typeof(name) any nullish(d) never const(v) regex(d) date bigint       *)
(*   ta(ctor) sfmt(fs) nfmt(fs) consts(vs) tuple(prefix, rest) allOf(ms)   *)
(*   anyOf(ms) array(e) map(kt, vt) set(e) disc(d, ms, mapping) opt(t)     *)
(*   object(ps, ix) ref(n);   named = sequence of [n, rt]                  *)
(* Property tables (ps, mapping) are sequences in Object.keys order.       *)
(*                                                                         *)
(* What the model does not interpret: regular expressions ("X" - the       *)
(* template semantics is BeffSem!TplM3 on the TS level), string order      *)
(* (sorting is by a rank function R supplied with the tree: JavaScript's   *)
(* default sort / localeCompare are environment data like node:crypto).    *)
(***************************************************************************)
EXTENDS BeffSem, SequencesExt

NamedRt(named, n) == named[CHOOSE i \in DOMAIN named : named[i].n = n].rt
IsNamed(named, n) == \E i \in DOMAIN named : named[i].n = n

\* ------------------------------------------------------------------ children (describeChildren / hash256Children)
Kids(rt) ==
  CASE rt.c = "tuple"  -> rt.prefix \o rt.rest
    [] rt.c \in {"allOf", "anyOf"} -> rt.ms
    [] rt.c \in {"array", "set"} -> <<rt.e>>
    [] rt.c = "map"    -> <<rt.kt, rt.vt>>
    [] rt.c = "opt"    -> <<rt.t>>
    [] rt.c = "disc"   -> rt.ms \o [i \in DOMAIN rt.mapping |-> rt.mapping[i].rt]
    [] rt.c = "object" -> [i \in DOMAIN rt.ps |-> rt.ps[i].rt]
                          \o [i \in 1..(2 * Len(rt.ix)) |-> IF i % 2 = 1 THEN rt.ix[(i + 1) \div 2].kt ELSE rt.ix[i \div 2].vt]
    [] OTHER -> <<>>

\* ------------------------------------------------------------------ validate
JsTypeof(v) ==
  CASE v.k \in {"undef", "hole"} -> "undefined" [] v.k = "bool" -> "boolean" [] v.k = "num" -> "number" [] v.k = "str" -> "string"
    [] v.k = "big" -> "bigint" [] v.k = "fn" -> "function" [] v.k = "sym" -> "symbol" [] OTHER -> "object"

\* objects whose own / inherited properties the value codec does not keep apart, typed arrays with index keys
Murky(v) == (v.k = "obj" /\ v.c \in {"inh", "inhown"}) \/ (v.k = "ta" /\ v.es # <<>>)
OwnProps(v) == IF v.k = "obj" THEN v.ps ELSE <<>>
OwnKeys(v)  == {OwnProps(v)[i].key : i \in DOMAIN OwnProps(v)}
OwnGet(v, key) == IF key \in OwnKeys(v) THEN OwnProps(v)[CHOOSE i \in DOMAIN OwnProps(v) : OwnProps(v)[i].key = key].v ELSE VUndef
At(es, i) == IF i \in DOMAIN es THEN Deh(es[i]) ELSE VUndef

RECURSIVE RtVal(_, _, _, _)
RtVal(rt, v, s, named) ==
  CASE rt.c = "typeof"  -> B3(JsTypeof(v) = rt.name)
    [] rt.c = "any"     -> "T"
    [] rt.c = "nullish" -> B3(IsNullish(v))
    [] rt.c = "never"   -> "F"
    [] rt.c = "const"   -> IF rt.v.k = "null" THEN B3(IsNullish(v)) ELSE B3(v = rt.v /\ ~(v.k = "num" /\ v.n = "NaN"))
    [] rt.c = "consts"  -> IF IsNullish(v) /\ (\E i \in DOMAIN rt.vs : rt.vs[i].k = "null") THEN "T"
                           ELSE B3(\E i \in DOMAIN rt.vs : rt.vs[i] = v)
    [] rt.c = "regex"   -> IF v.k = "str" THEN "X" ELSE "F"
    [] rt.c = "date"    -> B3(v.k = "date")
    [] rt.c = "bigint"  -> B3(v.k = "big")
    [] rt.c = "ta"      -> B3(v.k = "ta" /\ v.c = rt.ctor)
    [] rt.c = "sfmt"    -> B3(v.k = "str" /\ \A i \in DOMAIN rt.fs : StrFmtOk(rt.fs[i], v.s))
    [] rt.c = "nfmt"    -> B3(v.k = "num" /\ \A i \in DOMAIN rt.fs : NumFmtOk(rt.fs[i], v.n))
    [] rt.c = "tuple"   ->
         IF v.k # "arr" THEN "F"
         ELSE LET n == Len(rt.prefix)  m == Len(v.es) IN
              And3( { RtVal(rt.prefix[i], At(v.es, i), s, named) : i \in 1..n }
                    \cup (IF rt.rest # <<>> THEN { RtVal(rt.rest[1], v.es[i], s, named) : i \in (n + 1)..m }
                          ELSE { B3(m <= n) }) )
    [] rt.c = "allOf"   -> And3({RtVal(rt.ms[i], v, s, named) : i \in DOMAIN rt.ms})
    [] rt.c = "anyOf"   -> Or3({RtVal(rt.ms[i], v, s, named) : i \in DOMAIN rt.ms})
    [] rt.c = "array"   -> IF v.k = "arr" THEN And3({RtVal(rt.e, v.es[i], s, named) : i \in DOMAIN v.es}) ELSE "F"
    [] rt.c = "map"     -> IF v.k = "map"
                           THEN And3({And3({RtVal(rt.kt, v.es[i].mk, s, named), RtVal(rt.vt, v.es[i].mv, s, named)}) : i \in DOMAIN v.es})
                           ELSE "F"
    [] rt.c = "set"     -> IF v.k = "set" THEN And3({RtVal(rt.e, v.es[i], s, named) : i \in DOMAIN v.es}) ELSE "F"
    [] rt.c = "opt"     -> IF IsNullish(v) THEN "T" ELSE RtVal(rt.t, v, s, named)
    [] rt.c = "ref"     -> RtVal(NamedRt(named, rt.n), v, s, named)
    [] rt.c = "disc"    ->
         IF JsTypeof(v) # "object" \/ v.k = "null" THEN "F"
         ELSE IF Murky(v) \/ rt.d \in {"length", "size", "byteLength"} THEN "X"
         ELSE LET d == OwnGet(v, rt.d) IN      \* (a plain read; inherited members only matter for Murky objects and hostile names)
              IF IsNullish(d) THEN (IF rt.d \in HostileKeys /\ rt.d \notin OwnKeys(v) THEN "X" ELSE "F")
              ELSE IF d.k # "str" \/ ~(\E i \in DOMAIN rt.mapping : rt.mapping[i].key = d.s) THEN "F"
              ELSE RtVal(rt.mapping[CHOOSE i \in DOMAIN rt.mapping : rt.mapping[i].key = d.s].rt, v, s, named)
    [] rt.c = "object"  ->
         IF JsTypeof(v) # "object" \/ v.k \in {"null", "arr"} THEN "F"
         ELSE IF Murky(v) THEN "X"
         ELSE LET declared == {rt.ps[i].key : i \in DOMAIN rt.ps}
                  extra == OwnKeys(v) \ declared
                  propV == { RtVal(rt.ps[i].rt, OwnGet(v, rt.ps[i].key), s, named) : i \in DOMAIN rt.ps }
                  extraV == IF rt.ix # <<>>
                            THEN { Or3({ And3({RtVal(rt.ix[j].kt, VStr(key), s, named), RtVal(rt.ix[j].vt, OwnGet(v, key), s, named)})
                                         : j \in DOMAIN rt.ix }) : key \in extra }
                            ELSE IF s THEN {B3(extra = {})} ELSE {}
              IN And3(propV \cup extraV)

RECURSIVE Flat(_)
Flat(ss) == IF ss = <<>> THEN <<>> ELSE Head(ss) \o Flat(Tail(ss))
SortedBy(seq, key(_), R) == SortSeq(seq, LAMBDA a, b : R[key(a)] < R[key(b)])

\* ------------------------------------------------------------------ parseAfterValidation (safeParse / parse on accepted input)
\* Result: a value term; Unk where the model does not decide (uninterpreted regular expression on the path, objects whose own /
\* inherited properties the codec does not keep apart); Thrown where the implementation throws its internal error.
Unk    == [k |-> "unk"]
Thrown == [k |-> "thrown"]
RECURSIVE HasMark(_, _)
HasMark(v, m) ==
  CASE v.k = m -> TRUE
    [] v.k \in {"arr", "set"} -> \E i \in DOMAIN v.es : HasMark(v.es[i], m)
    [] v.k = "map" -> \E i \in DOMAIN v.es : HasMark(v.es[i].mk, m) \/ HasMark(v.es[i].mv, m)
    [] v.k = "obj" -> \E i \in DOMAIN v.ps : HasMark(v.ps[i].v, m)
    [] OTHER -> FALSE

\* acc[key] = val on a sequence of properties: an existing key keeps its position
SetProp(ps, key, val) ==
  IF \E i \in DOMAIN ps : ps[i].key = key
  THEN [i \in DOMAIN ps |-> IF ps[i].key = key THEN P(key, val) ELSE ps[i]]
  ELSE Append(ps, P(key, val))
RECURSIVE SetProps(_, _)
SetProps(ps, more) == IF more = <<>> THEN ps ELSE SetProps(SetProp(ps, Head(more).key, Head(more).v), Tail(more))

\* deepmerge (deepmergeConstructor with mergeArray = deepmergeArray, no cloneProtoObject)
IsPrimitive(v)   == JsTypeof(v) # "object" \/ v.k = "null"
IsBuiltIn(v)     == v.k \in {"date", "map", "set", "ta", "other"}
IsMergeable(v)   == ~IsPrimitive(v) /\ ~IsBuiltIn(v)
RECURSIVE Clone(_), DeepMerge(_, _)
Clone(v) ==
  IF ~IsMergeable(v) THEN v
  ELSE IF v.k = "arr" THEN VArr([i \in DOMAIN v.es |-> Clone(Deh(v.es[i]))])          \* (an index loop: holes become undefined)
  ELSE IF Murky(v) THEN Unk
  ELSE VObj([i \in DOMAIN v.ps |-> P(v.ps[i].key, Clone(v.ps[i].v))])
MergeObject(t, s) ==
  IF Murky(t) \/ Murky(s) THEN Unk
  ELSE LET tp == OwnProps(t)  sp == OwnProps(s)
           tOnly == SelectSeq(tp, LAMBDA q : q.key \notin OwnKeys(s))
       IN VObj([i \in DOMAIN tOnly |-> P(tOnly[i].key, Clone(tOnly[i].v))]
               \o [i \in DOMAIN sp |-> IF sp[i].key \in OwnKeys(t) THEN P(sp[i].key, DeepMerge(OwnGet(t, sp[i].key), sp[i].v))
                                       ELSE P(sp[i].key, Clone(sp[i].v))])
DeepMerge(t, s) ==
  IF IsPrimitive(s) THEN s
  ELSE IF IsPrimitive(t) \/ IsBuiltIn(t) THEN Clone(s)
  ELSE IF s.k = "arr" /\ t.k = "arr"
       THEN LET n == IF Len(t.es) > Len(s.es) THEN Len(t.es) ELSE Len(s.es) IN
            VArr([i \in 1..n |-> IF i <= Len(s.es) THEN DeepMerge(At(t.es, i), Deh(s.es[i])) ELSE Clone(Deh(t.es[i]))])
  ELSE IF (s.k = "arr") # (t.k = "arr") THEN Clone(s)
  ELSE MergeObject(t, s)
RECURSIVE DeepMergeFrom(_, _)
DeepMergeFrom(acc, items) == IF items = <<>> THEN acc ELSE DeepMergeFrom(DeepMerge(acc, Head(items)), Tail(items))
DeepMergeAll(items) == IF items = <<>> THEN VObj(<<>>) ELSE DeepMergeFrom(VUndef, items)

RECURSIVE RtParse(_, _, _, _, _, _)
\* s: disallowExtraProperties, ord: "input" | "sorted", R: rank of keys in JavaScript's default sort order
RtParse(rt, v, s, ord, named, R) ==
  LET Sub(x, w) == RtParse(x, w, s, ord, named, R) IN
  CASE rt.c \in {"typeof", "any", "nullish", "const", "consts", "regex", "date", "bigint", "ta", "sfmt", "nfmt"} -> v
    [] rt.c = "never"  -> Thrown
    [] rt.c = "tuple"  -> VArr([i \in DOMAIN rt.prefix |-> Sub(rt.prefix[i], At(v.es, i))]
                               \o (IF rt.rest = <<>> THEN <<>>
                                   ELSE [j \in 1..(IF Len(v.es) > Len(rt.prefix) THEN Len(v.es) - Len(rt.prefix) ELSE 0) |->
                                          Sub(rt.rest[1], Deh(v.es[Len(rt.prefix) + j]))]))
    [] rt.c = "allOf"  -> IF IsPrimitive(v) THEN v
                          ELSE LET items == [i \in DOMAIN rt.ms |-> Sub(rt.ms[i], v)] IN
                               IF \E i \in DOMAIN items : items[i].k \notin {"unk", "thrown"} /\ JsTypeof(items[i]) # "object" THEN Thrown
                               ELSE IF \E i \in DOMAIN items : items[i].k \in {"unk", "thrown"} THEN Unk
                               ELSE DeepMergeFrom(VObj(<<>>), items)
    [] rt.c = "anyOf"  -> LET vs == [i \in DOMAIN rt.ms |-> RtVal(rt.ms[i], v, s, named)] IN
                          IF \E i \in DOMAIN vs : vs[i] = "X" THEN Unk
                          ELSE LET hit == SelectSeq([i \in DOMAIN rt.ms |-> i], LAMBDA i : vs[i] = "T")
                                   items == [j \in DOMAIN hit |-> Sub(rt.ms[hit[j]], v)] IN
                               IF \E i \in DOMAIN items : items[i].k \in {"unk", "thrown"} THEN Unk ELSE DeepMergeAll(items)
    [] rt.c = "array"  -> VArr([i \in DOMAIN v.es |-> IF v.es[i].k = "hole" THEN VHole ELSE Sub(rt.e, v.es[i])])   \* (Array.prototype.map keeps holes)
    [] rt.c = "map"    -> VMap([i \in DOMAIN v.es |-> E(Sub(rt.kt, v.es[i].mk), Sub(rt.vt, v.es[i].mv))])
    [] rt.c = "set"    -> VSet([i \in DOMAIN v.es |-> Sub(rt.e, v.es[i])])
    [] rt.c = "opt"    -> IF IsNullish(v) THEN v ELSE Sub(rt.t, v)
    [] rt.c = "ref"    -> Sub(NamedRt(named, rt.n), v)
    [] rt.c = "disc"   -> IF Murky(v) \/ v.k # "obj" \/ rt.d \notin OwnKeys(v) THEN Unk
                          ELSE LET d == OwnGet(v, rt.d)
                                   inner == Sub(rt.mapping[CHOOSE i \in DOMAIN rt.mapping : rt.mapping[i].key = d.s].rt, v) IN
                               IF inner.k # "obj" THEN Unk ELSE VObj(SetProp(inner.ps, rt.d, d))      \* { ...parsed, [discriminator]: input[d] }
    [] rt.c = "object" ->
         IF Murky(v) THEN Unk
         ELSE LET declared == {rt.ps[i].key : i \in DOMAIN rt.ps}
                  ip == OwnProps(v)
                  DeclParsed(key) == Sub(rt.ps[CHOOSE i \in DOMAIN rt.ps : rt.ps[i].key = key].rt, OwnGet(v, key))
                  \* an undeclared key: every index signature that takes key and value writes acc[key] (the last one wins)
                  IxHits(key) == SelectSeq(rt.ix, LAMBDA p : And3({RtVal(p.kt, VStr(key), s, named), RtVal(p.vt, OwnGet(v, key), s, named)}) = "T")
                  IxUnknown(key) == \E j \in DOMAIN rt.ix : And3({RtVal(rt.ix[j].kt, VStr(key), s, named), RtVal(rt.ix[j].vt, OwnGet(v, key), s, named)}) = "X"
                  IxParsed(key) == LET h == IxHits(key) IN <<P(key, Sub(h[Len(h)].vt, OwnGet(v, key)))>>
                  extraSeq == SelectSeq(ip, LAMBDA q : q.key \notin declared)
              IN IF \E i \in DOMAIN extraSeq : IxUnknown(extraSeq[i].key) THEN Unk
                 ELSE IF ord = "input"
                 THEN VObj(SetProps(<<>>, Flat([i \in DOMAIN ip |->
                        IF ip[i].key \in declared THEN <<P(ip[i].key, DeclParsed(ip[i].key))>>
                        ELSE IF IxHits(ip[i].key) = <<>> THEN <<>> ELSE IxParsed(ip[i].key)])))
                 ELSE LET cfg == SortedBy(SelectSeq(rt.ps, LAMBDA q : q.key \in OwnKeys(v)), LAMBDA q : q.key, R)
                          ext == SortedBy(extraSeq, LAMBDA q : q.key, R)
                      IN VObj(SetProps(<<>>, [i \in DOMAIN cfg |-> P(cfg[i].key, DeclParsed(cfg[i].key))]
                                              \o Flat([i \in DOMAIN ext |-> IF IxHits(ext[i].key) = <<>> THEN <<>> ELSE IxParsed(ext[i].key)])))

\* ------------------------------------------------------------------ hash256 token stream
Tag(x)   == [k |-> "tag", s |-> x]
Str(x)   == [k |-> "str", s |-> x]
NumS(x)  == [k |-> "num", s |-> x]           \* canonicalNumber(value) as text
Num(n)   == NumS(ToString(n))
BoolT(b) == [k |-> "bool", b |-> b]
NullT    == [k |-> "null"]

ConstTok(v) ==
  CASE v.k = "null" -> <<NullT>>
    [] v.k = "str"  -> <<Tag("string"), Str(v.s)>>
    [] v.k = "num"  -> <<Tag("number"), NumS(v.n)>>
    [] v.k = "bool" -> <<Tag("boolean"), BoolT(v.b)>>

\* constSortKey
ConstKey(v) == CASE v.k = "null" -> "null:" [] v.k = "str" -> "string:" \o v.s [] v.k = "num" -> "number:" \o v.n
                 [] v.k = "bool" -> "boolean:" \o (IF v.b THEN "true" ELSE "false")

RECURSIVE CycleHeads(_, _, _)

\* collectCycleHeads: the named types that are reached again while they are on the path
CycleHeads(rt, path, named) ==
  IF rt.c = "ref"
  THEN IF rt.n \in path THEN {rt.n} ELSE CycleHeads(NamedRt(named, rt.n), path \cup {rt.n}, named)
  ELSE UNION {CycleHeads(Kids(rt)[i], path, named) : i \in DOMAIN Kids(rt)}

\* R.k / R.c: rank of a string in the order the implementation sorts by (keys, format names: Array.prototype.sort default;
\* constant sort keys: localeCompare)
RankOf(order) == [x \in {order[i] : i \in DOMAIN order} |-> CHOOSE i \in DOMAIN order : order[i] = x]

RECURSIVE HEncR(_, _, _, _, _)
\* active: sequence of the cycle heads being hashed (the id of a head is its depth on the path, ctx.active.size when it is entered)
HEncR(rt, active, heads, named, R) ==
  LET Sub(x) == HEncR(x, active, heads, named, R) IN
  CASE rt.c = "typeof"  -> <<Tag("typeof"), Str(rt.name)>>
    [] rt.c = "any"     -> <<Tag("any")>>
    [] rt.c = "nullish" -> <<Tag("nullish")>>
    [] rt.c = "never"   -> <<Tag("never")>>
    [] rt.c = "const"   -> <<Tag("const")>> \o ConstTok(rt.v)
    [] rt.c = "regex"   -> <<Tag("regex"), Str(rt.d)>>
    [] rt.c = "date"    -> <<Tag("date")>>
    [] rt.c = "bigint"  -> <<Tag("bigint")>>
    [] rt.c = "ta"      -> <<Tag("typedArray"), Str(rt.ctor)>>
    [] rt.c \in {"sfmt", "nfmt"} ->
         LET fs == SortedBy(rt.fs, LAMBDA f : f, R.k) IN
         <<Tag(IF rt.c = "sfmt" THEN "stringWithFormat" ELSE "numberWithFormat"), Num(Len(fs))>> \o [i \in DOMAIN fs |-> Str(fs[i])]
    [] rt.c = "consts"  ->
         LET vs == SortedBy(rt.vs, ConstKey, R.c) IN
         <<Tag("anyOfConsts"), Num(Len(vs))>> \o Flat([i \in DOMAIN vs |-> ConstTok(vs[i])])
    [] rt.c = "tuple"   ->
         <<Tag("tuple"), Num(Len(rt.prefix))>> \o Flat([i \in DOMAIN rt.prefix |-> Sub(rt.prefix[i])])
         \o (IF rt.rest = <<>> THEN <<Tag("noRest")>> ELSE <<Tag("rest")>> \o Sub(rt.rest[1]))
    [] rt.c \in {"allOf", "anyOf"} ->
         <<Tag(rt.c), Num(Len(rt.ms))>> \o Flat([i \in DOMAIN rt.ms |-> Sub(rt.ms[i])])
    [] rt.c = "array"   -> <<Tag("array")>> \o Sub(rt.e)
    [] rt.c = "map"     -> <<Tag("map")>> \o Sub(rt.kt) \o Sub(rt.vt)
    [] rt.c = "set"     -> <<Tag("set")>> \o Sub(rt.e)
    [] rt.c = "opt"     -> <<Tag("optionalField")>> \o Sub(rt.t)
    [] rt.c = "disc"    ->
         LET mp == SortedBy(rt.mapping, LAMBDA e : e.key, R.k) IN
         <<Tag("anyOfDiscriminated"), Str(rt.d), Num(Len(rt.ms))>> \o Flat([i \in DOMAIN rt.ms |-> Sub(rt.ms[i])])
         \o <<Num(Len(mp))>> \o Flat([i \in DOMAIN mp |-> <<Str(mp[i].key)>> \o Sub(mp[i].rt)])
    [] rt.c = "object"  ->
         LET ps == SortedBy(rt.ps, LAMBDA e : e.key, R.k) IN
         <<Tag("object"), Num(Len(ps))>>
         \o Flat([i \in DOMAIN ps |-> <<Str(ps[i].key), BoolT(ps[i].rt.c = "opt")>> \o Sub(ps[i].rt)])
         \o <<Num(Len(rt.ix))>> \o Flat([i \in DOMAIN rt.ix |-> Sub(rt.ix[i].kt) \o Sub(rt.ix[i].vt)])
    [] rt.c = "ref"     ->
         IF \E i \in DOMAIN active : active[i] = rt.n
         THEN <<Tag("cycleRef"), Num((CHOOSE i \in DOMAIN active : active[i] = rt.n) - 1)>>
         ELSE IF rt.n \notin heads THEN Sub(NamedRt(named, rt.n))          \* an alias that is not recursive is transparent
         ELSE HEncR(NamedRt(named, rt.n), Append(active, rt.n), heads, named, R)

HEnc(rt, named, R) == <<Tag("beff-hash256-v1")>> \o HEncR(rt, <<>>, CycleHeads(rt, {}, named), named, R)
=============================================================================

--------------------------- MODULE Bdd ---------------------------
(***************************************************************************)
(* Transcription of packages/beff-core/src/subtyping/bdd.rs:84-295         *)
(* (three-way decision diagrams: from_node, union, intersect, diff,        *)
(* complement) and dnf.rs:56-119 (bdd_to_dnf, dnf_to_bdd), with the        *)
(* reference meaning Eval(b, rho) under a truth assignment of the atoms.   *)
(*                                                                         *)
(* The state machine has two registers holding diagrams; its actions are   *)
(* the four operations.  TLC explores every diagram reachable from the     *)
(* basics and checks that each operation denotes the Boolean operation.    *)
(***************************************************************************)
EXTENDS Naturals, Sequences, FiniteSets, TLC

CONSTANTS NAtoms,        \* atoms 1..NAtoms, ordered by number (atom_cmp)
          MaxNodes       \* state constraint for the 4-atom exploration (0 = no constraint)

T == [t |-> "T"]
F == [t |-> "F"]
Node(a, l, m, r) == [t |-> "N", a |-> a, l |-> l, m |-> m, r |-> r]
FromAtom(a) == Node(a, T, F, F)

RECURSIVE Union(_, _), Inter(_, _), Diff(_, _), Compl(_), Size(_)

\* Bdd::from_node
FromNode(a, l, m, r) == IF m = T THEN T ELSE IF l = r THEN Union(l, m) ELSE Node(a, l, m, r)

Union(b1, b2) ==
  IF b1 = b2 THEN b1
  ELSE IF b1.t = "T" THEN T ELSE IF b1.t = "F" THEN b2
  ELSE IF b2.t = "T" THEN T ELSE IF b2.t = "F" THEN b1
  ELSE IF b1.a < b2.a THEN FromNode(b1.a, b1.l, Union(b1.m, b2), b1.r)
  ELSE IF b1.a > b2.a THEN FromNode(b2.a, b2.l, Union(b1, b2.m), b2.r)
  ELSE FromNode(b1.a, Union(b1.l, b2.l), Union(b1.m, b2.m), Union(b1.r, b2.r))

Inter(b1, b2) ==
  IF b1 = b2 THEN b1
  ELSE IF b1.t = "T" THEN b2 ELSE IF b1.t = "F" THEN F
  ELSE IF b2.t = "T" THEN b1 ELSE IF b2.t = "F" THEN F
  ELSE IF b1.a < b2.a THEN FromNode(b1.a, Inter(b1.l, b2), Inter(b1.m, b2), Inter(b1.r, b2))
  ELSE IF b1.a > b2.a THEN FromNode(b2.a, Inter(b1, b2.l), Inter(b1, b2.m), Inter(b1, b2.r))
  ELSE FromNode(b1.a, Inter(Union(b1.l, b1.m), Union(b2.l, b2.m)), F, Inter(Union(b1.r, b1.m), Union(b2.r, b2.m)))

Diff(b1, b2) ==
  IF b1 = b2 THEN F
  ELSE IF b2.t = "T" THEN F ELSE IF b2.t = "F" THEN b1
  ELSE IF b1.t = "T" THEN Compl(b2) ELSE IF b1.t = "F" THEN F
  ELSE IF b1.a < b2.a THEN FromNode(b1.a, Diff(Union(b1.l, b1.m), b2), F, Diff(Union(b1.r, b1.m), b2))
  ELSE IF b1.a > b2.a THEN FromNode(b2.a, Diff(b1, Union(b2.l, b2.m)), F, Diff(b1, Union(b2.r, b2.m)))
  ELSE FromNode(b1.a, Diff(Union(b1.l, b1.m), Union(b2.l, b2.m)), F, Diff(Union(b1.r, b1.m), Union(b2.r, b2.m)))

Compl(b) ==
  IF b.t = "T" THEN F ELSE IF b.t = "F" THEN T
  ELSE IF b.r = F THEN FromNode(b.a, F, Compl(Union(b.l, b.m)), Compl(b.m))
  ELSE IF b.l = F THEN FromNode(b.a, Compl(b.m), Compl(Union(b.r, b.m)), F)
  ELSE IF b.m = F THEN FromNode(b.a, Compl(b.l), Compl(Union(b.l, b.r)), Compl(b.r))
  ELSE FromNode(b.a, Compl(Union(b.l, b.m)), F, Compl(Union(b.r, b.m)))

Size(b) == IF b.t = "N" THEN 1 + Size(b.l) + Size(b.m) + Size(b.r) ELSE 0

\* ------------------------------------------------------------------ meaning
Assignments == [1..NAtoms -> BOOLEAN]
RECURSIVE Eval(_, _)
Eval(b, rho) == IF b.t = "T" THEN TRUE ELSE IF b.t = "F" THEN FALSE
                ELSE Eval(b.m, rho) \/ (IF rho[b.a] THEN Eval(b.l, rho) ELSE Eval(b.r, rho))

\* ------------------------------------------------------------------ DNF (dnf.rs)
Conj(pos, neg) == [pos |-> pos, neg |-> neg]
RECURSIVE ToDnf(_, _, _)
\* bdd_to_dnf_recursive: middle first, then left (atom positive), then right (atom negative)
ToDnf(b, pos, neg) ==
  IF b.t = "T" THEN <<Conj(pos, neg)>> ELSE IF b.t = "F" THEN <<>>
  ELSE ToDnf(b.m, pos, neg) \o ToDnf(b.l, Append(pos, b.a), neg) \o ToDnf(b.r, pos, Append(neg, b.a))
BddToDnf(b) == ToDnf(b, <<>>, <<>>)

RECURSIVE InterAtoms(_, _, _), FromDnf(_, _)
InterAtoms(acc, atoms, negated) ==
  IF atoms = <<>> THEN acc
  ELSE InterAtoms(Inter(acc, IF negated THEN Compl(FromAtom(Head(atoms))) ELSE FromAtom(Head(atoms))), Tail(atoms), negated)
FromDnf(dnf, acc) ==
  IF dnf = <<>> THEN acc
  ELSE FromDnf(Tail(dnf), Union(acc, InterAtoms(InterAtoms(T, Head(dnf).pos, FALSE), Head(dnf).neg, TRUE)))
DnfToBdd(dnf) == FromDnf(dnf, F)
EvalDnf(dnf, rho) == \E i \in DOMAIN dnf : (\A j \in DOMAIN dnf[i].pos : rho[dnf[i].pos[j]]) /\ (\A j \in DOMAIN dnf[i].neg : ~rho[dnf[i].neg[j]])

\* ------------------------------------------------------------------ the machine
VARIABLES x, y
bvars == <<x, y>>
Basics == {T, F} \cup {FromAtom(a) : a \in 1..NAtoms}

BInit == x \in Basics /\ y \in Basics
BNext == \/ x' = Union(x, y) /\ y' = y
         \/ x' = Inter(x, y) /\ y' = y
         \/ x' = Diff(x, y)  /\ y' = y
         \/ x' = Compl(x)    /\ y' = y
         \/ x' = y /\ y' = x
         \/ x' = x /\ y' \in Basics
BSpec == BInit /\ [][BNext]_bvars
SizeConstraint == MaxNodes = 0 \/ (Size(x) <= MaxNodes /\ Size(y) <= MaxNodes)

\* ------------------------------------------------------------------ properties (C06, decision-diagram layer)
OpsAreBoolean ==
  \A rho \in Assignments :
    /\ Eval(Union(x, y), rho) = (Eval(x, rho) \/ Eval(y, rho))
    /\ Eval(Inter(x, y), rho) = (Eval(x, rho) /\ Eval(y, rho))
    /\ Eval(Diff(x, y), rho)  = (Eval(x, rho) /\ ~Eval(y, rho))
    /\ Eval(Compl(x), rho)    = ~Eval(x, rho)
NormalFormsPreserveMeaning ==
  \A rho \in Assignments :
    /\ EvalDnf(BddToDnf(x), rho) = Eval(x, rho)
    /\ Eval(DnfToBdd(BddToDnf(x)), rho) = Eval(x, rho)
\* atoms are strictly increasing along every path (the invariant the algorithms rely on)
RECURSIVE Ordered(_, _)
Ordered(b, lo) == b.t # "N" \/ (b.a > lo /\ Ordered(b.l, b.a) /\ Ordered(b.m, b.a) /\ Ordered(b.r, b.a))
WellOrdered == Ordered(x, 0) /\ Ordered(y, 0)
=============================================================================

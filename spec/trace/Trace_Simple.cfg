SPECIFICATION TraceSpec
INVARIANT Report
POSTCONDITION Accepted
CHECK_DEADLOCK FALSE

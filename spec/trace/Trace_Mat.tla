--------------------------- MODULE Trace_Mat ---------------------------
(***************************************************************************)
(* C07: semantically computed types reach code generation unchanged in     *)
(* meaning.  First line: atom tables.  Every further line: an operation    *)
(* (diff / intersect / keyof / index) on fragment types with               *)
(*   st     - the dump of the computed semantic type                       *)
(*   raw    - what semtype_to_runtypes produced (may contain negations)    *)
(*   clean  - after remove_nots_of_intersections_and_empty_of_union, i.e.  *)
(*            what is handed to code generation                            *)
(*   tail   - helper definitions introduced for recursion                  *)
(*   env    - all definitions the result may refer to                      *)
(* TLC compares SemLevel!SMem on the materialised type with SemDump!DMem   *)
(* on the dump for a universe of values, and checks printability, name     *)
(* resolution and uniqueness.                                              *)
(***************************************************************************)
EXTENDS SemDump, Json, IOUtils, TLCExt
Rec  == ndJsonDeserialize(IOEnv.TRACE)
Open == LET o == ndJsonDeserialize(IOEnv.OPEN) IN {o[1].devs[i] : i \in DOMAIN o[1].devs}
Types == ndJsonDeserialize(IOEnv.TYPES)[1]
Frag == Types.frag
Env0 == Types.env
Atoms == Rec[1].atoms
VARIABLES l, bad
tvars == <<l, bad>>

Extras == {VNull, VBool(TRUE), VBool(FALSE), VNum("7"), VNum("1"), VNum("2"), VStr("zz"), VStr("a"), VStr("b"), VStr("v"), VStr("next"),
           VArr(<<>>), VArr(<<VNum("7")>>), VObj(<<>>), VObj(<<P("zk", VNum("7"))>>), VObj(<<P("a", VNum("1"))>>),
           VObj(<<P("a", VNum("7"))>>), VObj(<<P("a", VStr("a")), P("b", VNull)>>)}
Universe(A, B) == LET C == Ctx(A, B, Env0) IN TakeS(Wit(A, Env0, C, WitFuel), 40) \cup TakeS(Wit(B, Env0, C, WitFuel), 40) \cup Extras

RECURSIVE HasNot(_), RefsOf(_), EmptyUnion(_)
Kids(T) == CASE T.t \in {"arr", "set"} -> <<T.e>> [] T.t = "map" -> <<T.kt, T.vt>> [] T.t = "tuple" -> T.es \o T.r
             [] T.t = "obj" -> [i \in DOMAIN T.ps |-> T.ps[i].ty] \o [i \in DOMAIN T.ix |-> T.ix[i].kt] \o [i \in DOMAIN T.ix |-> T.ix[i].vt]
             [] T.t \in {"union", "inter"} -> T.ms [] T.t = "not" -> <<T.a>> [] OTHER -> <<>>
HasNot(T) == T.t = "not" \/ \E i \in DOMAIN Kids(T) : HasNot(Kids(T)[i])
EmptyUnion(T) == (T.t \in {"union", "inter"} /\ T.ms = <<>>) \/ \E i \in DOMAIN Kids(T) : EmptyUnion(Kids(T)[i])
RECURSIVE HasOptional(_), MentionsUndefined(_)
\* the engine's OptionalProp tag ("absent") is materialised as `undefined`: contested, see below
MentionsUndefined(T) == (T.t = "prim" /\ T.p \in {"undefined", "void"}) \/ \E i \in DOMAIN Kids(T) : MentionsUndefined(Kids(T)[i])
HasOptional(T) == (T.t = "obj" /\ ((\E i \in DOMAIN T.ps : T.ps[i].opt) \/ T.ix # <<>>)) \/ \E i \in DOMAIN Kids(T) : HasOptional(Kids(T)[i])
RefsOf(T) == (IF T.t = "ref" THEN {T.n} ELSE {}) \cup UNION {RefsOf(Kids(T)[i]) : i \in DOMAIN Kids(T)}

Complaints(r) ==
  LET A == Frag[r.ia]  B == Frag[r.ib]
      names == {r.env[i].n : i \in DOMAIN r.env}
      tailNames == [i \in DOMAIN r.tail |-> r.tail[i].n]
  IN
  IF ~r.ok THEN {"materialisation-failed"}
  \* a result that still contains a negation is not handed to code generation: the frontend reports a diagnostic
  \* (contains_negation in the Exclude arm); any other caller would hit the printer's unreachable!, which C04 watches
  ELSE IF HasNot(r.clean) THEN {}
  ELSE
  (IF \E v \in Universe(A, B) : SMem(v, r.raw, r.env, FALSE) # DMem(v, r.st, Atoms, TRUE) THEN {"materialised-type-differs-from-computed-type"} ELSE {})
  \cup (IF \E v \in Universe(A, B) : SMem(v, r.clean, r.env, FALSE) # SMem(v, r.raw, r.env, FALSE) THEN {"negation-dropped-changes-meaning"} ELSE {})
  \cup (IF HasNot(r.clean) \/ \E i \in DOMAIN r.tail : HasNot(r.tail[i].ty) THEN {"negation-reaches-code-generation"} ELSE {})
  \cup (IF EmptyUnion(r.clean) \/ \E i \in DOMAIN r.tail : EmptyUnion(r.tail[i].ty) THEN {"empty-union-reaches-code-generation"} ELSE {})
  \cup (IF ~(RefsOf(r.clean) \cup UNION {RefsOf(r.tail[i].ty) : i \in DOMAIN r.tail} \subseteq names) THEN {"reference-to-undefined-helper"} ELSE {})
  \cup (IF \E i, j \in DOMAIN tailNames : i # j /\ tailNames[i] = tailNames[j] THEN {"helper-defined-twice"} ELSE {})
  \cup (IF \E i \in DOMAIN tailNames : \E j \in DOMAIN Env0 : Env0[j].n = tailNames[i] THEN {"helper-name-clashes-with-a-declared-type"} ELSE {})
  \cup (IF ~HasNot(r.clean) /\ r.code # "ok" THEN {"code-generation-failed"} ELSE {})
  \* re-conversion (observe_at of C07): to_sem_type(clean) must be the same semantic type as the computed one.
  \* Don't-care when the materialised type has an optional property: it is printed as `k?: undefined | T`, and whether
  \* {k?: T} contains {k: undefined} is contested (the engine's OptionalProp tag vs. TypeScript's default reading).
  \* the engine itself says that the type without its negations is another type (the universe may lack the deep value that
  \* tells them apart): the dropped negation changed the meaning
  \cup (IF r.roundtrip = "F" /\ HasNot(r.raw) /\ ~HasNot(r.clean) THEN {"negation-dropped-changes-meaning"} ELSE {})
  \cup (IF r.roundtrip = "F" /\ ~HasNot(r.raw) /\ ~HasOptional(r.clean) /\ ~MentionsUndefined(r.raw) /\ ~(\E i \in DOMAIN r.tail : HasOptional(r.tail[i].ty))
           /\ ~\E v \in Universe(A, B) : SMem(v, r.clean, r.env, FALSE) # SMem(v, r.raw, r.env, FALSE)
        THEN {"reconverted-type-is-not-the-same-semantic-type"} ELSE {})

\* ------------------------------------------------------------------ source stage (ev = "src")
\* the operation written in TypeScript and compiled by the real frontend; va / vb / vt: verdicts of the validators of A, B and
\* T = op(A, B) on the same JSON-like probes ("E" = the validator threw)
SrcComplaints(r) ==
  IF r.outcome \in {"panic", "abort", "timeout", "emit_error"} THEN {"compile-" \o r.outcome}
  ELSE IF r.outcome # "code" THEN {}                   \* a diagnostic: the frontend declines (C04 judges diagnostics)
  ELSE IF r.load # "ok" THEN {"emitted-module-does-not-load"}
  ELSE LET Ch(str, i) == SubSeq(str, i, i) IN
       (IF \E i \in 1..Len(r.vt) : Ch(r.vt, i) = "E" THEN {"materialised-validator-threw"} ELSE {})
       \* the set-difference law is required where the subtrahend is null alone (Exclude<X | null, null>, NonNullable): elsewhere
       \* the result may have needed a negation, which is judged on the engine level above (negationDroppedInIntersection), and
       \* optional properties make null / absent contested between the engine and the validators
       \cup (IF r.op = "nonnull" /\ \E i \in 1..Len(r.vt) :
                   Ch(r.vt, i) # "E" /\ Ch(r.va, i) # "E" /\ Ch(r.vb, i) # "E" /\ (Ch(r.vt, i) = "T") # (Ch(r.va, i) = "T" /\ Ch(r.vb, i) = "F")
             THEN {"exclude-is-not-the-set-difference-of-its-operands"} ELSE {})

Explain(kind) ==
  IF kind = "negation-dropped-changes-meaning" /\ "negationDroppedInIntersection" \in Open THEN "negationDroppedInIntersection" ELSE "NEW"

Observe ==
  /\ l <= Len(Rec)
  /\ bad' = IF l = 1 THEN {}
            ELSE IF Rec[l].ev = "src" THEN {[kind |-> k, class |-> Explain(k)] : k \in SrcComplaints(Rec[l])}
            ELSE {[kind |-> k, class |-> Explain(k)] : k \in Complaints(Rec[l])}
  /\ l' = l + 1
TraceInit == l = 1 /\ bad = {}
TraceSpec == TraceInit /\ [][Observe]_tvars
Accepted ==
  LET consumed == TLCGet("stats").diameter - 1 IN
  /\ PrintT(<<"CONSUMED", ToJson([n |-> consumed, of |-> Len(Rec)])>>)
  /\ consumed = Len(Rec)
Report == \A b \in bad : PrintT(<<"JUDGED", ToJson([line |-> l - 1, kind |-> b.kind, class |-> b.class])>>)
=============================================================================

--------------------------- MODULE Trace_Watch ---------------------------
(***************************************************************************)
(* Trace validation for C14: histories replayed on the real beff-wasm      *)
(* session (native host).  Every logged step must be the Edit / Rebuild    *)
(* step of Watch.tla: same cache keys (BUNDLER.files), same watched set    *)
(* (files handed out by read_file_content), and - the property - whenever  *)
(* a rebuild happened its output equals the output of a fresh process on   *)
(* the current files (bytes of the code / serialized diagnostics).         *)
(***************************************************************************)
EXTENDS Watch, Json, IOUtils, TLCExt
Rec == ndJsonDeserialize(IOEnv.TRACE)
VARIABLES l, bad
tvars == <<l, bad, disk, cache, bound, watched, out, built, steps>>

FileOf(path) == CASE path = "entry.ts" -> "entry" [] path = "m1.ts" -> "m1" [] path = "m2.ts" -> "m2" [] OTHER -> "?"
Names(ps) == {FileOf(ps[i]) : i \in DOMAIN ps}

Check(r) ==
  (IF Names(r.cache) # {f \in Files : cache'[f] # "none"} THEN {"cache-keys-differ-from-model"} ELSE {})
  \cup (IF Names(r.watched) # watched' THEN {"watched-set-differs-from-model"} ELSE {})
  \cup (IF r.built # built' THEN {"rebuild-trigger-differs-from-model"} ELSE {})
  \* the property.  Where the model as implemented (open deviations) itself predicts a result other than the fresh one, the
  \* difference is the recorded finding; anywhere else it is a violation.
  \cup (IF r.built /\ (r.out.kind # r.fresh.kind \/ r.out.text # r.fresh.text)
        THEN (IF out' # Fresh(disk') /\ "createDeleteUnnoticed" \in Deviations THEN {"known:createDeleteUnnoticed"}
              ELSE {"rebuild-differs-from-fresh-process"})
        ELSE {})
  \cup (IF r.built /\ r.out.kind \notin {"code", "diags"} THEN {"rebuild-produced-neither-code-nor-diagnostics"} ELSE {})

Reset == /\ Rec[l].op = "reset"
         /\ disk' = [entry |-> "e1", m1 |-> "a1", m2 |-> "b1"] /\ cache' = [f \in Files |-> "none"] /\ watched' = {}
         /\ bound' = [f \in Files |-> {}]
         /\ out' = NoOut /\ built' = FALSE /\ steps' = 0 /\ bad' = {}
TEdit == /\ Rec[l].op = "edit"
         /\ Edit(FileOf(Rec[l].f), Rec[l].c)
         /\ bad' = Check(Rec[l])
TCreate == /\ Rec[l].op = "create"
           /\ Create(FileOf(Rec[l].f), Rec[l].c)
           /\ bad' = Check(Rec[l])
TDelete == /\ Rec[l].op = "delete"
           /\ Delete(FileOf(Rec[l].f))
           /\ bad' = Check(Rec[l])
TRebuild == /\ Rec[l].op = "rebuild"
            /\ Rebuild
            /\ bad' = Check(Rec[l])

TraceInit == l = 1 /\ bad = {} /\ Init
TraceNext == l <= Len(Rec) /\ (Reset \/ TEdit \/ TCreate \/ TDelete \/ TRebuild) /\ l' = l + 1
TraceSpec == TraceInit /\ [][TraceNext]_tvars
Accepted ==
  LET consumed == TLCGet("stats").diameter - 1 IN
  /\ PrintT(<<"CONSUMED", ToJson([n |-> consumed, of |-> Len(Rec)])>>)
  /\ consumed = Len(Rec)
Report == \A b \in bad : PrintT(<<"JUDGED", ToJson([line |-> l - 1, kind |-> b])>>)
=============================================================================

--------------------------- MODULE Trace_Ctx ---------------------------
(***************************************************************************)
(* Trace validation for C16.  The trace is a concatenation of runs on real *)
(* SchemaPrintingContexts:                                                 *)
(*   fresh  - parser p printed alone into a fresh context (per config)     *)
(*   reset  - a new context (config, overrides on/off)                     *)
(*   call   - schemaWithContext(p) with the returned schema and the        *)
(*            projected state (collectedDefinitions, inProgressDefinitions)*)
(* Every call must be a Call(p) step of SchemaCtx.tla (same collected      *)
(* names, same outcome), every stored definition must equal the fresh one, *)
(* nothing may be left in progress, every $ref must resolve, and the       *)
(* definitions reached by the same multiset of calls must be equal.        *)
(***************************************************************************)
EXTENDS SchemaCtx, JsonSchema, Json, IOUtils, TLCExt

Rec == ndJsonDeserialize(IOEnv.TRACE)

VARIABLES l, cfg, fresh, finals, bad
tvars == <<l, cfg, fresh, finals, bad, calls, ctx, useOverrides, lastOk>>

Bag(cs) == [p \in Parsers |-> Cardinality({i \in DOMAIN cs : cs[i] = p})]

\* definitions that fresh contexts of configuration c produced for name k, printing one of the parsers ps alone
FreshFor(c, k, ps) == { Get(fresh[x], k) : x \in {x \in DOMAIN fresh : x[1] = c /\ x[2] \in ps /\ HasKey(fresh[x], k)} }
Called(cs) == {cs[i] : i \in DOMAIN cs}

\* Known deviation "generatedNameCollision": the definitions of the inline variants of a discriminated union get generated
\* names, Discriminated<Key><Value><32-bit hash of the union>.  Two different unions can have one such name (equal 32-bit
\* hashes; unions that differ only in a JSDoc).  In one context the second union gets the next free name (or, when only the
\* annotations differ, shares the first one's definition): correct schemas, but WHICH name / annotation a union gets depends
\* on the order of the calls.  Identified by: the complaint is about a generated name and fresh contexts of two of the
\* parsers called in this history give different definitions to one generated name.
GeneratedName(k) == Len(k) > 13 /\ SubSeq(k, 1, 13) = "Discriminated"
CollisionWitnessed(c, ps) ==
  \E x, y \in DOMAIN fresh :
     /\ x[1] = c /\ y[1] = c /\ x[2] \in ps /\ y[2] \in ps
     /\ \E k \in Keys(fresh[x]) \cap Keys(fresh[y]) : GeneratedName(k) /\ ~JsonEq(Get(fresh[x], k), Get(fresh[y], k))
DiffKeys(a, b) == {k \in Keys(a) \cup Keys(b) : ~(HasKey(a, k) /\ HasKey(b, k) /\ JsonEq(Get(a, k), Get(b, k)))}
\* a definition that refers to a generated name (it differs from the fresh one when that name is another one here)
MentionsGenerated(str) == \E i \in 1..(Len(str) - 12) : SubSeq(str, i, i + 12) = "Discriminated"
RefersToGenerated(defs, k) == HasKey(defs, k) /\ \E ref \in Refs(Get(defs, k)) : MentionsGenerated(ref)
Affected(defs, k) == GeneratedName(k) \/ RefersToGenerated(defs, k)
ClassOf(kind, name, defsNow, defsThen, c, ps) ==
  IF "generatedNameCollision" \in Deviations /\ CollisionWitnessed(c, ps)
     /\ \/ kind \in {"definition-differs-from-fresh", "no-fresh-definition"} /\ Affected(defsNow, name)
        \/ kind = "order-dependent-definitions" /\ \A k \in DiffKeys(defsNow, defsThen) : Affected(defsNow, k) \/ Affected(defsThen, k)
  THEN "generatedNameCollision" ELSE "NEW"

CallBad(r) ==
  LET R == [defs |-> r.defs, pre |-> r.pre, suf |-> r.suf, pats |-> <<>>]
      named == Keys(r.defs) \cap Names
      all == (IF r.ok THEN {r.schema} ELSE {}) \cup {r.defs.ps[i].v : i \in DOMAIN r.defs.ps}
      bag == <<cfg, Bag(calls')>>
  IN (IF r.ok # lastOk' THEN {[kind |-> "outcome-differs-from-fresh-context", name |-> r.p]} ELSE {})
     \cup (IF r.inprog # <<>> THEN {[kind |-> "definition-left-in-progress", name |-> r.inprog[1]]} ELSE {})
     \cup (IF named # DOMAIN ctx'.col THEN {[kind |-> "collected-names-differ-from-model", name |-> r.p]} ELSE {})
     \* (what a fresh context would produce "for that type": the fresh contexts of the parsers called in this history)
     \cup { [kind |-> "no-fresh-definition", name |-> k] : k \in {k \in Keys(r.defs) : FreshFor(cfg, k, Called(calls')) = {}} }
     \cup { [kind |-> "definition-differs-from-fresh", name |-> k]
            : k \in {k \in Keys(r.defs) : \E f \in FreshFor(cfg, k, Called(calls')) : ~JsonEq(Get(r.defs, k), f)} }
     \cup { [kind |-> "ref-does-not-resolve", name |-> ref]
            : ref \in {ref \in UNION {Refs(x) : x \in all} : ~RefResolves(ref, R)} }
     \cup (IF bag \in DOMAIN finals /\ ~JsonEq(finals[bag], r.defs)
           THEN {[kind |-> "order-dependent-definitions", name |-> r.p]} ELSE {})

Fresh ==
  /\ l <= Len(Rec) /\ Rec[l].ev = "fresh"
  /\ fresh' = (<<Rec[l].cfg, Rec[l].p>> :> Rec[l].defs) @@ fresh
  /\ bad' = IF Rec[l].inprog # <<>> THEN {[kind |-> "definition-left-in-progress", name |-> Rec[l].inprog[1], class |-> "NEW"]} ELSE {}
  /\ UNCHANGED <<cfg, finals, calls, ctx, useOverrides, lastOk>>

Reset ==
  /\ l <= Len(Rec) /\ Rec[l].ev = "reset"
  /\ cfg' = Rec[l].cfg
  /\ useOverrides' = Rec[l].ov
  /\ calls' = <<>> /\ ctx' = St(<<>>, {}, FALSE) /\ lastOk' = TRUE
  /\ bad' = {}
  /\ UNCHANGED <<fresh, finals>>

TraceCall ==
  /\ l <= Len(Rec) /\ Rec[l].ev = "call"
  /\ Call(Rec[l].p)                       \* the SchemaCtx action
  /\ bad' = LET bag == <<cfg, Bag(calls')>>
                 then == IF bag \in DOMAIN finals THEN finals[bag] ELSE Rec[l].defs
             IN { [kind |-> b.kind, name |-> b.name, class |-> ClassOf(b.kind, b.name, Rec[l].defs, then, cfg, Called(calls'))]
                  : b \in CallBad(Rec[l]) }
  /\ LET bag == <<cfg, Bag(calls')>> IN
     finals' = IF bag \in DOMAIN finals THEN finals ELSE (bag :> Rec[l].defs) @@ finals
  /\ UNCHANGED <<cfg, fresh>>

TraceInit == /\ l = 1 /\ cfg = "" /\ fresh = <<>> /\ finals = <<>> /\ bad = {}
             /\ calls = <<>> /\ ctx = St(<<>>, {}, FALSE) /\ useOverrides = FALSE /\ lastOk = TRUE
TraceNext == (Fresh \/ Reset \/ TraceCall) /\ l' = l + 1
TraceSpec == TraceInit /\ [][TraceNext]_tvars

Accepted ==
  LET consumed == TLCGet("stats").diameter - 1 IN
  /\ PrintT(<<"CONSUMED", ToJson([n |-> consumed, of |-> Len(Rec)])>>)
  /\ consumed = Len(Rec)

Report == \A b \in bad : PrintT(<<"JUDGED", ToJson([line |-> l - 1, kind |-> b.kind, name |-> b.name, class |-> b.class])>>)
=============================================================================

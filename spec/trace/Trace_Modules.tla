--------------------------- MODULE Trace_Modules ---------------------------
(***************************************************************************)
(* C09: the first line is the single-file program; every further line is a *)
(* layout of Modules.tla compiled by the real compiler.  Non-broken        *)
(* layouts must behave like the single-file program; broken layouts must   *)
(* yield a diagnostic that mentions the unresolved name.                   *)
(***************************************************************************)
EXTENDS Naturals, Sequences, FiniteSets, TLC, Json, IOUtils, TLCExt
Rec == ndJsonDeserialize(IOEnv.TRACE)
VARIABLES l, bad, base
tvars == <<l, bad, base>>
\* the reference program of the group a line belongs to: the latest line with steps = 0 (the first line is one)
Contains(s, sub) == \E i \in 1..(Len(s) - Len(sub) + 1) : SubSeq(s, i, i + Len(sub) - 1) = sub

Complaints(r, Base) ==
  IF r.expected = "diagnostic"
  THEN (IF r.outcome = "code" THEN {"unresolvable-reference-compiled-to-code"}
        ELSE IF r.outcome # "diags" THEN {"compile-" \o r.outcome}
        ELSE IF ~Contains(r.diag, r.names_broken) THEN {"diagnostic-does-not-name-the-unresolved-reference"} ELSE {})
  ELSE (IF r.outcome # "code" THEN {"layout-does-not-compile"}
        ELSE (IF r.vec # Base.vec THEN {"validators-differ-from-single-file-program"} ELSE {})
             \cup (IF r.h256 # Base.h256 THEN {"hash256-differs-from-single-file-program"} ELSE {}))

Observe ==
  /\ l <= Len(Rec)
  /\ base' = IF Rec[l].steps = 0 THEN l ELSE base
  /\ bad' = Complaints(Rec[l], Rec[base'])
  /\ l' = l + 1
TraceInit == l = 1 /\ bad = {} /\ base = 1
TraceSpec == TraceInit /\ [][Observe]_tvars
Accepted ==
  LET consumed == TLCGet("stats").diameter - 1 IN
  /\ PrintT(<<"CONSUMED", ToJson([n |-> consumed, of |-> Len(Rec)])>>)
  /\ consumed = Len(Rec)
Report == \A b \in bad : PrintT(<<"JUDGED", ToJson([line |-> l - 1, kind |-> b])>>)
=============================================================================

--------------------------- MODULE Trace_Describe ---------------------------
(***************************************************************************)
(* C15: describe() prints TypeScript that compiles back to the same        *)
(* validator.  One line per program: generation 1 (the program), its       *)
(* describe() text, generation 2 (the text compiled again) with validate   *)
(* vectors, hash256 and the second describe() text, plus the declared      *)
(* alias names found in the text (syntactic projection by the harness).    *)
(***************************************************************************)
EXTENDS Naturals, Sequences, FiniteSets, TLC, Json, IOUtils, TLCExt
Rec  == ndJsonDeserialize(IOEnv.TRACE)
Open == LET o == ndJsonDeserialize(IOEnv.OPEN) IN {o[1].devs[i] : i \in DOMAIN o[1].devs}
VARIABLES l, bad
tvars == <<l, bad>>

Complaints(r) ==
  IF r.outcome # "code" THEN {}                       \* generation 1 did not compile: outside C15
  ELSE IF ~r.desc1ok THEN {"describe-threw"}
  ELSE (IF \E i, j \in DOMAIN r.decls : i # j /\ r.decls[i] = r.decls[j] THEN {"name-declared-twice"} ELSE {})
       \cup (IF r.outcome2 # "code" THEN {"described-text-does-not-compile"}
             ELSE (IF r.vec2 # r.vec1 THEN {"described-validator-differs"} ELSE {})
                  \cup (IF r.h2 # r.h1 THEN {"described-hash256-differs"} ELSE {})
                  \cup (IF r.desc2n # r.desc1n THEN {"describe-not-a-fixpoint"} ELSE {}))

Contains(s, sub) == \E i \in 1..(Len(s) - Len(sub) + 1) : SubSeq(s, i, i + Len(sub) - 1) = sub
\* Known deviation "tplOneOfDescribe": a template literal with an alternation, `a${"b" | "bc"}`, is described as
\* `a("b" | "bc")` (the ${ } is lost), which compiles to a different type.  r.tploneof: the program's type term
\* contains such a template (syntactic projection by the harness).
Half(v, which) == LET n == (Len(v) - 1) \div 2 IN IF which = 1 THEN SubSeq(v, 1, n) ELSE SubSeq(v, n + 2, Len(v))
Explain(kind, r) ==
  IF kind \in {"described-validator-differs", "described-hash256-differs", "describe-not-a-fixpoint"}
     /\ r.tploneof /\ Contains(r.desc1, "(\"") /\ "tplOneOfDescribe" \in Open
  THEN "tplOneOfDescribe"
  \* Known deviation "aliasAtMemberChangesDigest" (see Trace_Rewrite): describe() inlines a named type that is referenced
  \* once; when that reference sits inside a member of a union / intersection the alias boundary disappears and the digest
  \* (and the member order of the re-described text) changes although the validator is the same.  r.refunder: the program
  \* has a named reference beneath a union or intersection (syntactic projection by the harness).
  \* Known deviation "strictPerInterMember" (see BeffSem): an intersection with a NAMED member is emitted as an AllOf whose members
  \* check strictness one by one; describe() inlines the named members, the re-compiled intersection is merged into one object
  \* and is correct in strict mode.  Only the strict halves of the vectors may differ (r.namedinter: syntactic projection).
  ELSE IF kind \in {"described-validator-differs", "described-hash256-differs", "describe-not-a-fixpoint"} /\ r.namedinter
          /\ Half(r.vec1, 1) = Half(r.vec2, 1) /\ r.vec1 # r.vec2 /\ "strictPerInterMember" \in Open
  THEN "strictPerInterMember"
  \* Known deviation "unrolledRecursionDigest": hash256 numbers the named types on the path and writes a back reference; a type
  \* that is an unrolling of a recursive named type ([number, ...B[]] for B = [number, ...B[]]) gets another digest than B
  \* although it is the same type.  describe() inlines aliases that are referenced once; when that makes the outer type
  \* structurally equal to the body of the named type, the compiler substitutes the reference and the digest changes while
  \* the validator stays the same.  r.recursive: the program has a recursive declaration whose body mentions a named type that is
  \* not recursive itself (syntactic projection).
  \* Known deviation "fractionalLiteralTruncated" (see BeffSem): the literal 3.14159 is compiled to 3.141589999, which describe()
  \* prints and the next compilation truncates again (3.141589998): the generations drift.
  ELSE IF kind \in {"described-validator-differs", "described-hash256-differs", "describe-not-a-fixpoint"} /\ r.inexactlit
          /\ "fractionalLiteralTruncated" \in Open
  THEN "fractionalLiteralTruncated"
  \* Known deviation "optionalIndexNextToNamed": an object with declared properties AND an index signature whose value is optional
  \* (Partial<{ a: string; [key: string]: string }>) is printed as { a?: string, [K in string]?: string }; a mapped type cannot
  \* have other members, the text does not parse.  r.optixnamed: the text has such an object literal (syntactic projection).
  ELSE IF kind = "described-text-does-not-compile" /\ r.optixnamed /\ "optionalIndexNextToNamed" \in Open
  THEN "optionalIndexNextToNamed"
  ELSE IF kind = "described-hash256-differs" /\ r.vec2 = r.vec1 /\ r.recursive /\ "unrolledRecursionDigest" \in Open
  THEN "unrolledRecursionDigest"
  ELSE IF kind \in {"described-hash256-differs", "describe-not-a-fixpoint"} /\ r.vec2 = r.vec1 /\ r.refunder
          /\ "aliasAtMemberChangesDigest" \in Open
  THEN "aliasAtMemberChangesDigest"
  ELSE "NEW"

Observe ==
  /\ l <= Len(Rec)
  /\ bad' = {[kind |-> k, class |-> Explain(k, Rec[l])] : k \in Complaints(Rec[l])}
  /\ l' = l + 1
TraceInit == l = 1 /\ bad = {}
TraceSpec == TraceInit /\ [][Observe]_tvars
Accepted ==
  LET consumed == TLCGet("stats").diameter - 1 IN
  /\ PrintT(<<"CONSUMED", ToJson([n |-> consumed, of |-> Len(Rec)])>>)
  /\ consumed = Len(Rec)
Report == \A b \in bad : PrintT(<<"JUDGED", ToJson([line |-> l - 1, kind |-> b.kind, class |-> b.class])>>)
=============================================================================

--------------------------- MODULE Trace_Val ---------------------------
(***************************************************************************)
(* Trace validation for C01 / C11: every line of the trace is one program  *)
(* executed by the real compiler + runtime, with the validate() outcomes   *)
(* observed for each probe value in default and strict mode.  TLC          *)
(* re-evaluates the reference semantics on the logged (type, value) pairs  *)
(* and classifies each observation: agreeing, explained by an open known   *)
(* deviation, or NEW.  The trace is accepted iff every line is consumed    *)
(* and nothing is NEW.                                                     *)
(***************************************************************************)
EXTENDS BeffSem, Json, IOUtils, TLCExt

Rec  == ndJsonDeserialize(IOEnv.TRACE)
Open == LET o == ndJsonDeserialize(IOEnv.OPEN) IN {o[1].devs[i] : i \in DOMAIN o[1].devs}

VARIABLES l, bad
tvars == <<l, bad>>

Bool3(o) == IF o \in {"T", "F"} THEN o ELSE "E"

JudgeProbe(r, i) ==
  LET ob == r.obs[i]
      cd == IF Bool3(ob.val) = "E" THEN "NEW" ELSE Classify(ob.val, ob.v, r.ty, r.env, FALSE, Open)
      cs == IF Bool3(ob.vals) = "E" THEN "NEW" ELSE Classify(ob.vals, ob.v, r.ty, r.env, TRUE, Open)
  IN  (IF cd = "ok" THEN {} ELSE
         {[line |-> l, id |-> r.id, probe |-> i, prop |-> "C01", class |-> cd, obs |-> ob.val,
           exp |-> M3(ob.v, r.ty, r.env, {}, FALSE)]})
      \cup
      (IF cs = "ok" \/ cd # "ok" THEN {} ELSE   \* a default-mode mismatch is reported once, under C01
         {[line |-> l, id |-> r.id, probe |-> i, prop |-> "C11", class |-> cs, obs |-> ob.vals,
           exp |-> M3(ob.v, r.ty, r.env, {}, TRUE)]})
      \cup
      \* a verdict is a function of (value, mode): the same object validated in alternating modes (default, strict, default,
      \* strict; and strict first on another object) must get the verdicts that fresh objects get
      (IF Bool3(ob.val) # "E" /\ Bool3(ob.vals) # "E" /\ "hist" \in DOMAIN ob /\ ob.hist # ""
          /\ (ob.hist # ob.val \o ob.vals \o ob.val \o ob.vals \/ ob.hist2 # ob.vals \o ob.val \o ob.vals)
       THEN {[line |-> l, id |-> r.id, probe |-> i, prop |-> pr, class |-> "NEW", obs |-> "same object, alternating modes: " \o ob.hist \o " / " \o ob.hist2,
              exp |-> ob.val \o ob.vals \o ob.val \o ob.vals \o " / " \o ob.vals \o ob.val \o ob.vals] : pr \in {"C01", "C11"}}
       ELSE {})

Observe ==
  /\ l <= Len(Rec)
  /\ LET r == Rec[l] IN
     /\ r.ev = "prog"
     /\ IF r.outcome = "code" /\ r.load = "ok"
        THEN bad' = UNION {JudgeProbe(r, i) : i \in DOMAIN r.obs}
        \* located diagnostics = the compiler declares the construct unsupported: outside C01 (C04 judges diagnostics);
        \* anything else (panic, abort, timeout, emitted module that does not load) is reported here as well
        ELSE IF r.outcome = "diags" THEN bad' = {}
        ELSE bad' = {[line |-> l, id |-> r.id, probe |-> 0, prop |-> "C01", class |-> "NEW",
                               obs |-> r.outcome, exp |-> "code"]}
  /\ l' = l + 1

TraceInit == l = 1 /\ bad = {}
TraceNext == Observe
TraceSpec == TraceInit /\ [][TraceNext]_tvars

\* POSTCONDITION: all lines consumed; print every judged deviation for the orchestrator
Accepted ==
  LET consumed == TLCGet("stats").diameter - 1 IN
  /\ PrintT(<<"CONSUMED", ToJson([n |-> consumed, of |-> Len(Rec)])>>)
  /\ consumed = Len(Rec)

\* invariant evaluated in every state: bad holds the deviations of the line just consumed
Report == \A b \in bad : PrintT(<<"JUDGED", ToJson(b)>>)
=============================================================================

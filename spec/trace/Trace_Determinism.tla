--------------------------- MODULE Trace_Determinism ---------------------------
(***************************************************************************)
(* Trace validation for C10: one line per compilation                      *)
(* [proj, order, pid, outcome, digest]; the history variable first maps a  *)
(* project to its first observation.                                       *)
(***************************************************************************)
EXTENDS Naturals, Sequences, FiniteSets, TLC, Json, IOUtils, TLCExt
Rec  == ndJsonDeserialize(IOEnv.TRACE)
Open == LET o == ndJsonDeserialize(IOEnv.OPEN) IN {o[1].devs[i] : i \in DOMAIN o[1].devs}
VARIABLES l, first, bad
tvars == <<l, first, bad>>

Explain(r, f) ==
  \* Known deviation "whichDiagnosticIsHashOrder": several exports of a namespace fail at once and the one that is
  \* reported depends on HashMap iteration order; both runs report diagnostics, only the choice differs
  IF r.outcome = "diags" /\ f.outcome = "diags" /\ r.multifail /\ "whichDiagnosticIsHashOrder" \in Open
  THEN "whichDiagnosticIsHashOrder" ELSE "NEW"

Observe ==
  /\ l <= Len(Rec)
  /\ LET r == Rec[l] IN
     IF r.proj \notin DOMAIN first
     THEN first' = (r.proj :> r) @@ first /\ bad' = {}
     ELSE /\ first' = first
          /\ bad' = IF r.digest # first[r.proj].digest
                    THEN {[kind |-> IF r.pid = first[r.proj].pid THEN "output-depends-on-registration-order"
                                    ELSE "output-differs-between-processes", class |-> Explain(r, first[r.proj])]}
                    ELSE {}
  /\ l' = l + 1
TraceInit == l = 1 /\ first = <<>> /\ bad = {}
TraceSpec == TraceInit /\ [][Observe]_tvars
Accepted ==
  LET consumed == TLCGet("stats").diameter - 1 IN
  /\ PrintT(<<"CONSUMED", ToJson([n |-> consumed, of |-> Len(Rec)])>>)
  /\ consumed = Len(Rec)
Report == \A b \in bad : PrintT(<<"JUDGED", ToJson([line |-> l - 1, kind |-> b.kind, class |-> b.class])>>)
=============================================================================

--------------------------- MODULE Trace_Writer ---------------------------
(***************************************************************************)
(* Trace validation of the real Hash256Writer against Sha256Writer.tla.    *)
(* Events: new | upd(n, buf, tot, blk) | digest(blk, hex, oracle) where    *)
(* buf/tot/blk are read from the live object after the step and oracle is  *)
(* node:crypto's SHA-256 of the same byte stream (environment oracle).     *)
(***************************************************************************)
EXTENDS Sha256Writer, Json, IOUtils, TLC, TLCExt

Rec == ndJsonDeserialize(IOEnv.TRACE)
VARIABLES l, bad
tvars == <<l, bad, bufLen, total, blocks, finished, writes>>

New == /\ Rec[l].ev = "new"
       /\ bufLen' = 0 /\ total' = 0 /\ blocks' = 0 /\ finished' = FALSE /\ writes' = <<>>
       /\ bad' = {}

Upd == /\ Rec[l].ev = "upd"
       /\ Update(Rec[l].n)
       /\ bad' = (IF bufLen' # Rec[l].buf THEN {"bufferLength"} ELSE {})
                 \cup (IF total' # Rec[l].tot THEN {"bytesHashed"} ELSE {})
                 \cup (IF blocks' # Rec[l].blk THEN {"chunks-processed"} ELSE {})

\* a token written through updateTag / updateString: the driver logs its kind, the number of characters and their width
Tok == /\ Rec[l].ev = "tok"
       /\ Token(Rec[l].k, Rec[l].c, Rec[l].w)
       /\ bad' = (IF bufLen' # Rec[l].buf THEN {"bufferLength"} ELSE {})
                 \cup (IF total' # Rec[l].tot THEN {"bytesHashed"} ELSE {})
                 \cup (IF blocks' # Rec[l].blk THEN {"chunks-processed"} ELSE {})

Dig == /\ Rec[l].ev = "digest"
       /\ Digest
       /\ bad' = (IF blocks' # Rec[l].blk THEN {"chunks-processed-at-digest"} ELSE {})
                 \cup (IF Rec[l].hex # Rec[l].oracle THEN {"digest-differs-from-sha256"} ELSE {})
                 \cup (IF ~Rec[l].threwAfter THEN {"write-after-digest-accepted"} ELSE {})

TraceInit == l = 1 /\ bad = {} /\ WInit
TraceNext == l <= Len(Rec) /\ (New \/ Upd \/ Tok \/ Dig) /\ l' = l + 1
TraceSpec == TraceInit /\ [][TraceNext]_tvars

Accepted ==
  LET consumed == TLCGet("stats").diameter - 1 IN
  /\ PrintT(<<"CONSUMED", ToJson([n |-> consumed, of |-> Len(Rec)])>>)
  /\ consumed = Len(Rec)
Report == \A b \in bad : PrintT(<<"JUDGED", ToJson([line |-> l - 1, kind |-> b])>>)
=============================================================================

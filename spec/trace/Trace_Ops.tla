--------------------------- MODULE Trace_Ops ---------------------------
(***************************************************************************)
(* C06, semantic-type layer.  First line: the atom tables of the engine's  *)
(* SemTypeContext.  Every further line: an ordered pair (A, B) of fragment *)
(* types with the dumps of to_sem_type(A), to_sem_type(B) and of the       *)
(* engine's union / intersect / diff / complement.  TLC evaluates the      *)
(* independent membership function SemDump!DMem on every dump for a        *)
(* universe of values (exact witnesses of A and B plus fixed extras) and    *)
(* requires the Boolean laws (also for derived operands: the engine's own   *)
(* complements of A and B, field der), under the open and the exact reading of the  *)
(* atoms, and that the operand dumps mean what the source types mean.      *)
(***************************************************************************)
EXTENDS SemDump, Json, IOUtils, TLCExt
Rec  == ndJsonDeserialize(IOEnv.TRACE)
Types == ndJsonDeserialize(IOEnv.TYPES)[1]
Frag == Types.frag
Env  == Types.env
Atoms == Rec[1].atoms
VARIABLES l, bad
tvars == <<l, bad>>

Extras == {VNull, VBool(TRUE), VBool(FALSE), VNum("7"), VNum("1"), VStr("zz"), VStr("a"), VArr(<<>>), VArr(<<VNum("7")>>), VObj(<<>>),
           VObj(<<P("zk", VNum("7"))>>), VObj(<<P("a", VNum("1"))>>), VObj(<<P("a", VStr("a")), P("b", VNull)>>), ABSENT}

Universe(A, B) == LET C == Ctx(A, B, Env) IN TakeS(Wit(A, Env, C, WitFuel), 40) \cup TakeS(Wit(B, Env, C, WitFuel), 40) \cup Extras
\* (a chain line carries a third fragment type: field ic)
Universe3(r) == LET A == Frag[r.ia]  B == Frag[r.ib] IN
                IF "ic" \in DOMAIN r
                THEN LET C3 == Frag[r.ic]  C == Ctx(Uni(<<A, B>>), C3, Env) IN
                     TakeS(Wit(A, Env, C, WitFuel), 25) \cup TakeS(Wit(B, Env, C, WitFuel), 25) \cup TakeS(Wit(C3, Env, C, WitFuel), 25) \cup Extras
                ELSE Universe(A, B)

\* does the term contain an intersection?  (the declarations of SemGen.Env contain none)
RECURSIVE HasInter(_)
HasInter(T) ==
  CASE T.t = "inter" -> TRUE
    [] T.t = "union" -> \E i \in DOMAIN T.ms : HasInter(T.ms[i])
    [] T.t = "arr"   -> HasInter(T.e)
    [] T.t = "tuple" -> \E i \in DOMAIN (T.es \o T.r) : HasInter((T.es \o T.r)[i])
    [] T.t = "obj"   -> (\E i \in DOMAIN T.ps : HasInter(T.ps[i].ty)) \/ (\E i \in DOMAIN T.ix : HasInter(T.ix[i].vt))
    [] OTHER -> FALSE

Complaints(r) ==
  LET A == Frag[r.ia]  B == Frag[r.ib]  U == Universe3(r) IN
  UNION { LET ma == DMem(v, r.a, Atoms, open)  mb == DMem(v, r.b, Atoms, open) IN
          (IF r.u.ok /\ DMem(v, r.u.st, Atoms, open) # (ma \/ mb) THEN {"union-is-not-set-union"} ELSE {})
          \cup (IF r.i.ok /\ DMem(v, r.i.st, Atoms, open) # (ma /\ mb) THEN {"intersect-is-not-set-intersection"} ELSE {})
          \cup (IF r.d.ok /\ DMem(v, r.d.st, Atoms, open) # (ma /\ ~mb) THEN {"diff-is-not-set-difference"} ELSE {})
          \cup (IF r.c.ok /\ DMem(v, r.c.st, Atoms, open) # ~ma THEN {"complement-is-not-set-complement"} ELSE {})
          \* (the exact reading of a decision diagram is taken atom by atom; for a conjunction of two mapping atoms that is not the
          \* exact reading of the intersection type - { a?: number } & { [k: string]: number } - so intersections are compared in
          \* the structural reading only)
          \cup (IF r.der = "A,B" /\ v # ABSENT /\ (open \/ ~HasInter(A)) /\ ma # SMem(v, A, Env, ~open)
                THEN {"operand-semtype-differs-from-its-source-type"} ELSE {})
        : v \in U, open \in BOOLEAN }
  \cup (IF ~(r.u.ok /\ r.i.ok /\ r.d.ok /\ r.c.ok) THEN {"operation-failed"} ELSE {})

Observe ==
  /\ l <= Len(Rec)
  /\ bad' = IF l = 1 THEN {} ELSE Complaints(Rec[l])
  /\ l' = l + 1
TraceInit == l = 1 /\ bad = {}
TraceSpec == TraceInit /\ [][Observe]_tvars
Accepted ==
  LET consumed == TLCGet("stats").diameter - 1 IN
  /\ PrintT(<<"CONSUMED", ToJson([n |-> consumed, of |-> Len(Rec)])>>)
  /\ consumed = Len(Rec)
Report == \A b \in bad : PrintT(<<"JUDGED", ToJson([line |-> l - 1, kind |-> b])>>)
=============================================================================

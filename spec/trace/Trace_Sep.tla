--------------------------- MODULE Trace_Sep ---------------------------
(***************************************************************************)
(* C13 separation: two validators that disagree on any value must have     *)
(* different digests.  Every line is one program with its observed         *)
(* hash256 and its observed validate vector over the common pool; the      *)
(* history variable seen maps a digest to the first vector observed.       *)
(***************************************************************************)
EXTENDS Naturals, Sequences, FiniteSets, TLC, Json, IOUtils, TLCExt
Rec == ndJsonDeserialize(IOEnv.TRACE)
VARIABLES l, seen, bad
tvars == <<l, seen, bad>>

IsHex64(s) == Len(s) = 64 /\ \A i \in 1..64 : SubSeq(s, i, i) \in {"0","1","2","3","4","5","6","7","8","9","a","b","c","d","e","f"}

Observe ==
  /\ l <= Len(Rec)
  /\ LET r == Rec[l] IN
     /\ bad' = (IF ~IsHex64(r.h256) THEN {[kind |-> "hash256-not-a-digest", other |-> 0]} ELSE {})
               \cup (IF r.h256 \in DOMAIN seen /\ seen[r.h256].vec # r.vec
                     THEN {[kind |-> "equal-digest-different-behaviour", other |-> seen[r.h256].id]} ELSE {})
     /\ seen' = IF r.h256 \in DOMAIN seen THEN seen ELSE (r.h256 :> [vec |-> r.vec, id |-> r.id]) @@ seen
  /\ l' = l + 1
TraceInit == l = 1 /\ seen = <<>> /\ bad = {}
TraceSpec == TraceInit /\ [][Observe]_tvars
Accepted ==
  LET consumed == TLCGet("stats").diameter - 1 IN
  /\ PrintT(<<"CONSUMED", ToJson([n |-> consumed, of |-> Len(Rec)])>>)
  /\ consumed = Len(Rec)
Report == \A b \in bad : PrintT(<<"JUDGED", ToJson([line |-> l - 1, kind |-> b.kind, other |-> b.other])>>)
=============================================================================

--------------------------- MODULE Trace_Schema ---------------------------
(***************************************************************************)
(* Trace validation for C02: the schemas really printed by schema() and    *)
(* schemaWithContext() are data for the specification; TLC evaluates       *)
(* well-formedness, $ref resolution and validity (JsonSchema.tla) of every *)
(* JSON probe document on the LOGGED schema and compares with the logged   *)
(* validate() outcome and the reference membership (BeffSem.tla).          *)
(* The python jsonschema verdict logged next to each document calibrates   *)
(* my transcription of JSON Schema: a disagreement is a tool error.        *)
(***************************************************************************)
EXTENDS BeffSem, JsonSchema, Json, IOUtils, TLCExt

Rec  == ndJsonDeserialize(IOEnv.TRACE)
Open == LET o == ndJsonDeserialize(IOEnv.OPEN) IN {o[1].devs[i] : i \in DOMAIN o[1].devs}

VARIABLES l, bad
tvars == <<l, bad>>

\* does the type mention something JSON Schema cannot express (reachable through refs)?
RECURSIVE NonJsonT(_, _, _)
NonJsonT(T, env, seen) ==
  CASE T.t = "prim"  -> T.p \in {"Date", "bigint", "function"}
    [] T.t \in {"map", "set", "ta"} -> TRUE
    [] T.t = "arr"   -> NonJsonT(T.e, env, seen)
    [] T.t = "tuple" -> (\E i \in DOMAIN T.es : NonJsonT(T.es[i], env, seen)) \/ (\E i \in DOMAIN T.r : NonJsonT(T.r[i], env, seen))
    [] T.t = "obj"   -> (\E i \in DOMAIN T.ps : NonJsonT(T.ps[i].ty, env, seen))
                        \/ (\E i \in DOMAIN T.ix : NonJsonT(T.ix[i].kt, env, seen) \/ NonJsonT(T.ix[i].vt, env, seen))
    [] T.t \in {"union", "inter"} -> \E i \in DOMAIN T.ms : NonJsonT(T.ms[i], env, seen)
    [] T.t = "ref"   -> T.n \notin seen /\ NonJsonT(Lookup(env, T.n), env, seen \cup {T.n})
    [] T.t = "deco"  -> NonJsonT(T.a, env, seen)           \* spelling-only decorations (parentheses, readonly, element labels, comments)
    [] T.t = "app"   -> NonJsonT(Instantiate(env, T.n, T.args), env, seen)
    [] OTHER -> FALSE

RECURSIVE RefsOfType(_, _, _)
RefsOfType(T, env, seen) ==   \* names reachable from T
  CASE T.t = "arr"   -> RefsOfType(T.e, env, seen)
    [] T.t = "tuple" -> UNION ({RefsOfType(T.es[i], env, seen) : i \in DOMAIN T.es} \cup {RefsOfType(T.r[i], env, seen) : i \in DOMAIN T.r})
    [] T.t = "obj"   -> UNION ({RefsOfType(T.ps[i].ty, env, seen) : i \in DOMAIN T.ps}
                               \cup {RefsOfType(T.ix[i].vt, env, seen) : i \in DOMAIN T.ix})
    [] T.t \in {"union", "inter"} -> UNION {RefsOfType(T.ms[i], env, seen) : i \in DOMAIN T.ms}
    [] T.t = "ref"   -> IF T.n \in seen THEN {T.n} ELSE {T.n} \cup RefsOfType(Lookup(env, T.n), env, seen \cup {T.n})
    [] T.t = "deco"  -> RefsOfType(T.a, env, seen)
    [] T.t \in {"set"} -> RefsOfType(T.e, env, seen)
    [] T.t = "map"   -> RefsOfType(T.kt, env, seen) \cup RefsOfType(T.vt, env, seen)
    [] OTHER -> {}
IsRecursive(T, env) == \E i \in DOMAIN env : env[i].n \in RefsOfType(env[i].ty, env, {})  /\ env[i].n \in RefsOfType(T, env, {})

Ctx0(pats) == [defs |-> VObj(<<>>), pre |-> "#/$defs/", suf |-> "", pats |-> pats]

\* C01 findings that change the type "as compiled" for the validator and the schema alike (reported under C01, not here)
AsCompiled == Open \cap {"fractionalLiteralTruncated", "tplNumberPlainDecimalOnly"}
DocBad(r, doc, schema, R, jsv) ==
  LET d == doc.v
      v == V3(d, schema, R, 8)
      \* the type as compiled: a literal that the compiler truncates (C01 finding fractionalLiteralTruncated) is not a
      \* member for the validator and the schema alike
      strict == M3(d, r.ty, r.env, AsCompiled, TRUE)
  IN (IF v # "X" /\ jsv \in {"T", "F"} /\ v # jsv THEN {"calibration-mismatch"} ELSE {})
     \cup (IF v = "T" /\ doc.val # "T" THEN {"schema-valid-but-validator-rejects"} ELSE {})
     \* (a member in default mode that is no member in strict mode differs by an undeclared key; where the default reading is
     \* itself contested - null / undefined leniency - the strict verdict says nothing about keys)
     \cup (IF v = "T" /\ doc.val = "T" /\ strict = "F" /\ M3(d, r.ty, r.env, AsCompiled, FALSE) = "T"
           THEN {"schema-valid-with-undeclared-key"} ELSE {})
     \cup (IF v = "F" /\ strict = "T" /\ NullFree(d) THEN {"exact-member-is-schema-invalid"} ELSE {})

PrintedBad(r, where, pr, defs, pre, suf, jsvs) ==
  \* pr = [ok, s, msg]; complaints about one printed schema (with its definitions)
  IF ~pr.ok THEN {}
  ELSE LET R == [defs |-> defs, pre |-> pre, suf |-> suf, pats |-> r.pats]
           allSchemas == {pr.s} \cup {defs.ps[i].v : i \in DOMAIN defs.ps}
       IN { [where |-> where, kind |-> c, doc |-> 0] : c \in UNION {WfComplaints(x) : x \in allSchemas} }
          \cup { [where |-> where, kind |-> "ref-does-not-resolve", doc |-> 0]
                 : ref \in {ref \in UNION {Refs(x) : x \in allSchemas} : ~RefResolves(ref, R)} }
          \cup UNION { { [where |-> where, kind |-> c, doc |-> i] : c \in DocBad(r, r.docs[i], pr.s, R, jsvs[i]) }
                       : i \in DOMAIN r.docs }

ProgBad(r) ==
  LET nonjson == NonJsonT(r.ty, r.env, {})
      recursive == IsRecursive(r.ty, r.env)
  IN
  (IF nonjson /\ (r.flat.ok \/ \E i \in DOMAIN r.ctx : r.ctx[i].schema.ok)
   THEN {[where |-> "any", kind |-> "nonjson-type-printed-a-schema", doc |-> 0]} ELSE {})
  \cup (IF ~nonjson /\ ~recursive THEN PrintedBad(r, "flat", r.flat, VObj(<<>>), "#/$defs/", "", r.jsvflat) ELSE {})
  \cup (IF ~nonjson THEN
          UNION { PrintedBad(r, r.ctx[i].name, r.ctx[i].schema, r.ctx[i].defs, r.ctx[i].pre, r.ctx[i].suf, r.ctx[i].jsv)
                  \cup (IF r.ctx[i].inprog # <<>> THEN {[where |-> r.ctx[i].name, kind |-> "definition-left-in-progress", doc |-> 0]} ELSE {})
                : i \in DOMAIN r.ctx }
        ELSE {})

\* an intersection one of whose members is printed through $refs to definitions: a reference to a named object type, or a
\* (discriminated) union of object types (anywhere in the program)
RECURSIVE NamedInterMember(_, _, _)
NamedInterMember(T, env, seen) ==
  CASE T.t = "inter" -> (\E i \in DOMAIN T.ms : T.ms[i].t = "ref" /\ \E b \in Branches(T.ms[i], env) : b.t = "obj")
                        \* a union of object types may be printed as a discriminated union, whose variants become definitions
                        \/ (\E i \in DOMAIN T.ms : T.ms[i].t = "union" /\ Cardinality({b \in Branches(T.ms[i], env) : b.t = "obj"}) >= 2)
                        \/ (\E i \in DOMAIN T.ms : NamedInterMember(T.ms[i], env, seen))
    [] T.t = "union" -> \E i \in DOMAIN T.ms : NamedInterMember(T.ms[i], env, seen)
    [] T.t = "arr"   -> NamedInterMember(T.e, env, seen)
    [] T.t = "tuple" -> \E i \in DOMAIN (T.es \o T.r) : NamedInterMember((T.es \o T.r)[i], env, seen)
    [] T.t = "obj"   -> (\E i \in DOMAIN T.ps : NamedInterMember(T.ps[i].ty, env, seen)) \/ (\E i \in DOMAIN T.ix : NamedInterMember(T.ix[i].vt, env, seen))
    [] T.t = "ref"   -> T.n \notin seen /\ NamedInterMember(Lookup(env, T.n), env, seen \cup {T.n})
    [] T.t = "deco"  -> NamedInterMember(T.a, env, seen)
    [] OTHER -> FALSE

\* Known deviation "allOfClosedRefs": printed into a definitions context, an intersection with a named object member is an
\* allOf over $refs to closed definitions (additionalProperties: false), which forbid each other's properties; the flat
\* printing merges the members and is not affected.
Explained(kind, r, where) ==
  IF kind = "anyOf-empty" /\ "neverAnyOfEmpty" \in Open THEN "neverAnyOfEmpty"
  ELSE IF kind = "exact-member-is-schema-invalid" /\ where # "flat" /\ "allOfClosedRefs" \in Open /\ NamedInterMember(r.ty, r.env, {})
  THEN "allOfClosedRefs"
  ELSE "NEW"

Observe ==
  /\ l <= Len(Rec)
  /\ LET r == Rec[l] IN
     /\ r.ev = "prog"
     /\ bad' = IF r.outcome = "code" /\ r.load = "ok"
               THEN { [line |-> l, id |-> r.id, where |-> b.where, kind |-> b.kind, doc |-> b.doc, class |-> Explained(b.kind, r, b.where)]
                      : b \in ProgBad(r) }
               ELSE {}
  /\ l' = l + 1

TraceInit == l = 1 /\ bad = {}
TraceSpec == TraceInit /\ [][Observe]_tvars

Accepted ==
  LET consumed == TLCGet("stats").diameter - 1 IN
  /\ PrintT(<<"CONSUMED", ToJson([n |-> consumed, of |-> Len(Rec)])>>)
  /\ consumed = Len(Rec)

Report == \A b \in bad : PrintT(<<"JUDGED", ToJson(b)>>)
=============================================================================

--------------------------- MODULE Trace_Sub ---------------------------
(***************************************************************************)
(* C05: every line is one ordered pair (A, B) of fragment types with what  *)
(* the real engine answered through its public API (to_sem_type +          *)
(* is_subtype / is_same_type) and, for a sample, which branch the compiled *)
(* conditional type `A extends B ? 1 : 2` took.  TLC recomputes inclusion  *)
(* of value sets (SemLevel!Sub) and compares.                              *)
(***************************************************************************)
EXTENDS SemLevel, Json, IOUtils, TLCExt
Rec  == ndJsonDeserialize(IOEnv.TRACE)
\* the fragment (types by index, declarations) exactly as TLC generated it (MC_Sub's TYPES line)
Types == ndJsonDeserialize(IOEnv.TYPES)[1]
Frag == Types.frag
Env  == Types.env
Open == LET o == ndJsonDeserialize(IOEnv.OPEN) IN {o[1].devs[i] : i \in DOMAIN o[1].devs}
VARIABLES l, bad, ia, ib
tvars == <<l, bad, ia, ib>>

Complaints(r) ==
  LET s == Sub(Frag[r.ia], Frag[r.ib], Env)
      e == s /\ Sub(Frag[r.ib], Frag[r.ia], Env)
  \* an Err(..) from the public API ("recursive type", unsupported operand) is the engine declining to decide: the caller
  \* reports a diagnostic, no decision is made (r.fatal marks a crash or a hang, which is never acceptable)
  IN (IF r.fatal THEN {"decision-did-not-terminate"} ELSE {})
     \cup (IF r.sub \in {"T", "F"} /\ r.sub # B3(s) THEN {"assignability-differs-from-inclusion"} ELSE {})
     \cup (IF r.same \in {"T", "F"} /\ r.same # B3(e) THEN {"equivalence-differs-from-mutual-inclusion"} ELSE {})
     \cup (IF r.src \in {"T", "F"} /\ r.src # B3(s) THEN {"conditional-type-branch-differs-from-inclusion"} ELSE {})


Observe ==
  /\ l <= Len(Rec)
  /\ ia' = Rec[l].ia /\ ib' = Rec[l].ib
  /\ bad' = {[kind |-> k, exp |-> B3(Sub(Frag[Rec[l].ia], Frag[Rec[l].ib], Env))] : k \in Complaints(Rec[l])}
  /\ l' = l + 1
TraceInit == l = 1 /\ bad = {} /\ ia = 1 /\ ib = 1
TraceSpec == TraceInit /\ [][Observe]_tvars
Accepted ==
  LET consumed == TLCGet("stats").diameter - 1 IN
  /\ PrintT(<<"CONSUMED", ToJson([n |-> consumed, of |-> Len(Rec)])>>)
  /\ consumed = Len(Rec)
Report == \A b \in bad : PrintT(<<"JUDGED", ToJson([line |-> l - 1, kind |-> b.kind, exp |-> b.exp])>>)
=============================================================================

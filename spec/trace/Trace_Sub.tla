--------------------------- MODULE Trace_Sub ---------------------------
(***************************************************************************)
(* C05: every line is one ordered pair (A, B) of fragment types with what  *)
(* the real engine answered through its public API (to_sem_type +          *)
(* is_subtype / is_same_type) and, for a sample, which branch the compiled *)
(* conditional type `A extends B ? 1 : 2` took.  TLC recomputes inclusion  *)
(* of value sets (SemLevel!Sub) and compares.                              *)
(***************************************************************************)
EXTENDS SemLevel, Json, IOUtils, TLCExt
Rec  == ndJsonDeserialize(IOEnv.TRACE)
\* the fragment (types by index, declarations) exactly as TLC generated it (MC_Sub's TYPES line)
Types == ndJsonDeserialize(IOEnv.TYPES)[1]
Frag == Types.frag
Env  == Types.env
Open == LET o == ndJsonDeserialize(IOEnv.OPEN) IN {o[1].devs[i] : i \in DOMAIN o[1].devs}
VARIABLES l, bad, ia, ib
tvars == <<l, bad, ia, ib>>

Complaints(r) ==
  LET s == Sub(Frag[r.ia], Frag[r.ib], Env)
      e == s /\ Sub(Frag[r.ib], Frag[r.ia], Env)
  \* an Err(..) from the public API ("recursive type", unsupported operand) is the engine declining to decide: the caller
  \* reports a diagnostic, no decision is made (r.fatal marks a crash or a hang, which is never acceptable)
  IN (IF r.fatal THEN {"decision-did-not-terminate"} ELSE {})
     \cup (IF r.sub \in {"T", "F"} /\ r.sub # B3(s) THEN {"assignability-differs-from-inclusion"} ELSE {})
     \cup (IF r.same \in {"T", "F"} /\ r.same # B3(e) THEN {"equivalence-differs-from-mutual-inclusion"} ELSE {})
     \cup (IF r.src \in {"T", "F"} /\ r.src # B3(s) THEN {"conditional-type-branch-differs-from-inclusion"} ELSE {})


\* Known deviation "subsumedUnionMember".  The engine reads an object / tuple atom exactly where it occurs positively and
\* structurally where it occurs negatively.  In the decision diagram of a union A1 | A2 the later-numbered member occurs as
\* (not A1) and A2, so a member whose exact values are structural values of another member of the same kind is lost:
\* (A1 | A2) <= B is decided as A1 <= B.  Which member is numbered first follows the order in which named types were converted.
\* Explained: every member of A that refutes the inclusion is such a losable member.
Kind(b) == IF b.t = "obj" THEN "mapping" ELSE IF b.t \in {"arr", "tuple"} THEN "list" ELSE "other"
Losable(A) == LET bs == Branches(A, Env) IN
              {b \in bs : Kind(b) # "other" /\ \E c \in bs : c # b /\ Kind(c) = Kind(b) /\ Sub(b, c, Env)}
ExplainedBySubsumption(A, B) == LET refuting == {b \in Branches(A, Env) : ~Sub(b, B, Env)} IN
                                refuting # {} /\ refuting \subseteq Losable(A)
ClassifySub(kind, r) ==
  LET A == Frag[r.ia]  B == Frag[r.ib]  s == Sub(A, B, Env)  s2 == Sub(B, A, Env) IN
  IF "subsumedUnionMember" \notin Open THEN "NEW"
  ELSE IF kind = "assignability-differs-from-inclusion" /\ r.sub = "T" /\ ~s /\ ExplainedBySubsumption(A, B) THEN "subsumedUnionMember"
  ELSE IF kind = "conditional-type-branch-differs-from-inclusion" /\ r.src = "T" /\ ~s /\ ExplainedBySubsumption(A, B) THEN "subsumedUnionMember"
  ELSE IF kind = "equivalence-differs-from-mutual-inclusion" /\ r.same = "T"
          /\ (s \/ ExplainedBySubsumption(A, B)) /\ (s2 \/ ExplainedBySubsumption(B, A)) THEN "subsumedUnionMember"
  ELSE "NEW"

Observe ==
  /\ l <= Len(Rec)
  /\ ia' = Rec[l].ia /\ ib' = Rec[l].ib
  /\ bad' = {[kind |-> k, exp |-> B3(Sub(Frag[Rec[l].ia], Frag[Rec[l].ib], Env)), class |-> ClassifySub(k, Rec[l])] : k \in Complaints(Rec[l])}
  /\ l' = l + 1
TraceInit == l = 1 /\ bad = {} /\ ia = 1 /\ ib = 1
TraceSpec == TraceInit /\ [][Observe]_tvars
Accepted ==
  LET consumed == TLCGet("stats").diameter - 1 IN
  /\ PrintT(<<"CONSUMED", ToJson([n |-> consumed, of |-> Len(Rec)])>>)
  /\ consumed = Len(Rec)
Report == \A b \in bad : PrintT(<<"JUDGED", ToJson([line |-> l - 1, kind |-> b.kind, exp |-> b.exp, class |-> b.class])>>)
=============================================================================

--------------------------- MODULE Trace_Runtime ---------------------------
(***************************************************************************)
(* Level (A) trace validation: every line is one parser of the real        *)
(* runtime - its validator tree as reflected from the live objects, the    *)
(* calls hash256() made on its Hash256Writer, and validate() outcomes for  *)
(* probe values in default and strict mode.  The line is explained by the  *)
(* model iff                                                               *)
(*     toks = Runtime!HEnc(tree, named, ranks)      (hash256 traversal)    *)
(*     val  = Runtime!RtVal(tree, v, FALSE, named)  (validate)             *)
(*     vals = Runtime!RtVal(tree, v, TRUE,  named)                         *)
(* A line the model does not explain is reported as DRIFT (the code does   *)
(* something else than the transcribed algorithm): the property-level      *)
(* trace specs (Trace_Val, Trace_Sep, Trace_Rewrite) decide whether that   *)
(* is a violation; here it means the design-level results of MC_HashEnc    *)
(* no longer speak about the code.                                         *)
(***************************************************************************)
EXTENDS Runtime, Json, IOUtils, TLCExt

Rec == ndJsonDeserialize(IOEnv.TRACE)

VARIABLES l, bad
tvars == <<l, bad>>

RECURSIVE WellFormedRt(_)
WellFormedRt(t) == t.c \notin {"unknown", "missing"} /\ \A i \in DOMAIN Kids(t) : WellFormedRt(Kids(t)[i])

FirstDiff(a, b) == IF \E i \in DOMAIN a : i \notin DOMAIN b \/ a[i] # b[i]
                   THEN CHOOSE i \in DOMAIN a : (i \notin DOMAIN b \/ a[i] # b[i]) /\ \A j \in 1..(i - 1) : j \in DOMAIN b /\ a[j] = b[j]
                   ELSE Len(a) + 1

\* objects with integer-like keys are enumerated by JavaScript in numeric order, whatever the insertion order: compared unordered
RECURSIVE NumericKeys(_), EqU(_, _)
NumericKeys(v) ==
  CASE v.k \in {"arr", "set"} -> \E i \in DOMAIN v.es : NumericKeys(v.es[i])
    [] v.k = "map" -> \E i \in DOMAIN v.es : NumericKeys(v.es[i].mk) \/ NumericKeys(v.es[i].mv)
    [] v.k = "obj" -> \E i \in DOMAIN v.ps : IsDigits(v.ps[i].key) \/ NumericKeys(v.ps[i].v)
    [] OTHER -> FALSE
EqU(a, b) ==
  IF a.k # b.k THEN FALSE
  ELSE CASE a.k \in {"arr", "set"} -> Len(a.es) = Len(b.es) /\ \A i \in DOMAIN a.es : EqU(a.es[i], b.es[i])
         [] a.k = "map" -> Len(a.es) = Len(b.es) /\ \A i \in DOMAIN a.es : EqU(a.es[i].mk, b.es[i].mk) /\ EqU(a.es[i].mv, b.es[i].mv)
         [] a.k = "obj" -> /\ a.c = b.c /\ Len(a.ps) = Len(b.ps)
                           /\ \A i \in DOMAIN a.ps : \E j \in DOMAIN b.ps : a.ps[i].key = b.ps[j].key /\ EqU(a.ps[i].v, b.ps[j].v)
         [] OTHER -> a = b
SameData(obs, exp) == IF NumericKeys(exp) \/ NumericKeys(obs) THEN EqU(obs, exp) ELSE obs = exp

JudgeParse(r, i, R) ==
  LET ob == r.obs[i] IN
  IF "sp" \notin DOMAIN ob THEN {}
  ELSE UNION { LET sp == ob.sp[j]
                   strict == sp.opt \in {"sd", "ss"}
                   ord == IF sp.opt \in {"ds", "ss"} THEN "sorted" ELSE "input"
                   vd == RtVal(r.tree, ob.v, strict, r.named)
                   exp == IF vd = "T" THEN RtParse(r.tree, ob.v, strict, ord, r.named, R.k) ELSE Unk
               IN IF vd # "T" \/ HasMark(exp, "unk") THEN {}
                  ELSE IF HasMark(exp, "thrown")
                       THEN (IF sp.ok = "E" THEN {} ELSE {[line |-> l, id |-> r.id, what |-> "parse-" \o sp.opt, probe |-> i, obs |-> sp.ok, exp |-> "throws"]})
                  ELSE IF sp.ok = "T" /\ SameData(sp.data, exp) THEN {}
                  ELSE {[line |-> l, id |-> r.id, what |-> "parse-" \o sp.opt, probe |-> i, obs |-> ToJson(sp.data), exp |-> ToJson(exp)]}
             : j \in DOMAIN ob.sp }

Judge(r) ==
  IF ~(WellFormedRt(r.tree) /\ \A i \in DOMAIN r.named : WellFormedRt(r.named[i].rt))
  THEN {[line |-> l, id |-> r.id, what |-> "tree-not-reflected", probe |-> 0, obs |-> "", exp |-> ""]}
  ELSE
  LET R == [k |-> RankOf(r.korder), c |-> RankOf(r.corder)]
      exp == HEnc(r.tree, r.named, R)
  IN (IF r.hmsg = "" /\ r.toks = exp THEN {}
      ELSE {[line |-> l, id |-> r.id, what |-> "hash256-stream", probe |-> FirstDiff(exp, r.toks), obs |-> r.hmsg,
             exp |-> IF FirstDiff(exp, r.toks) \in DOMAIN exp THEN exp[FirstDiff(exp, r.toks)].k ELSE "end"]})
     \cup UNION { LET ob == r.obs[i]
                      ed == RtVal(r.tree, ob.v, FALSE, r.named)
                      es == RtVal(r.tree, ob.v, TRUE, r.named)
                  IN (IF ob.val \in {"T", "F"} /\ Agrees(ob.val, ed) THEN {}
                      ELSE {[line |-> l, id |-> r.id, what |-> "validate-default", probe |-> i, obs |-> ob.val, exp |-> ed]})
                     \cup
                     (IF ob.vals \in {"T", "F"} /\ Agrees(ob.vals, es) THEN {}
                      ELSE {[line |-> l, id |-> r.id, what |-> "validate-strict", probe |-> i, obs |-> ob.vals, exp |-> es]})
                : i \in DOMAIN r.obs }
     \cup UNION { JudgeParse(r, i, R) : i \in DOMAIN r.obs }

Observe ==
  /\ l <= Len(Rec)
  /\ Rec[l].ev = "rt"
  /\ bad' = Judge(Rec[l])
  /\ l' = l + 1

TraceInit == l = 1 /\ bad = {}
TraceSpec == TraceInit /\ [][Observe]_tvars

Accepted ==
  LET consumed == TLCGet("stats").diameter - 1 IN
  /\ PrintT(<<"CONSUMED", ToJson([n |-> consumed, of |-> Len(Rec)])>>)
  /\ consumed = Len(Rec)
Report == \A b \in bad : PrintT(<<"JUDGED", ToJson(b)>>)
=============================================================================

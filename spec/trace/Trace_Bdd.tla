--------------------------- MODULE Trace_Bdd ---------------------------
(***************************************************************************)
(* C06, decision-diagram layer: every line is one state (x, y) of Bdd.tla  *)
(* with the results the REAL BddOps / bdd_to_dnf / dnf_to_bdd computed for *)
(* it.  TLC evaluates the real results under every truth assignment: they  *)
(* must denote the Boolean operations.  A result that differs from the     *)
(* transcription structurally but not in meaning is reported as drift of   *)
(* the specification, not as a violation.                                  *)
(***************************************************************************)
EXTENDS Bdd, Json, IOUtils, TLCExt
Rec == ndJsonDeserialize(IOEnv.TRACE)
VARIABLES l, bad
tvars == <<l, bad, x, y>>

Complaints(r) ==
  LET a == r.x  b == r.y IN
  (IF \E rho \in Assignments : Eval(r.impl.u, rho) # (Eval(a, rho) \/ Eval(b, rho)) THEN {"union-is-not-or"} ELSE {})
  \cup (IF \E rho \in Assignments : Eval(r.impl.i, rho) # (Eval(a, rho) /\ Eval(b, rho)) THEN {"intersect-is-not-and"} ELSE {})
  \cup (IF \E rho \in Assignments : Eval(r.impl.d, rho) # (Eval(a, rho) /\ ~Eval(b, rho)) THEN {"diff-is-not-and-not"} ELSE {})
  \cup (IF \E rho \in Assignments : Eval(r.impl.c, rho) # ~Eval(a, rho) THEN {"complement-is-not-not"} ELSE {})
  \cup (IF \E rho \in Assignments : EvalDnf(r.impl.dnf, rho) # Eval(a, rho) THEN {"dnf-changes-meaning"} ELSE {})
  \cup (IF \E rho \in Assignments : Eval(r.impl.back, rho) # Eval(a, rho) THEN {"dnf-to-bdd-changes-meaning"} ELSE {})
  \cup (IF ~(Ordered(r.impl.u, 0) /\ Ordered(r.impl.i, 0) /\ Ordered(r.impl.d, 0) /\ Ordered(r.impl.c, 0)) THEN {"atoms-not-ordered"} ELSE {})
  \cup (IF r.impl.u # Union(a, b) \/ r.impl.i # Inter(a, b) \/ r.impl.d # Diff(a, b) \/ r.impl.c # Compl(a)
           \/ r.impl.dnf # BddToDnf(a) \/ r.impl.back # DnfToBdd(BddToDnf(a))
        THEN {"drift"} ELSE {})

Observe ==
  /\ l <= Len(Rec)
  /\ x' = Rec[l].x /\ y' = Rec[l].y
  /\ bad' = Complaints(Rec[l])
  /\ l' = l + 1
TraceInit == l = 1 /\ bad = {} /\ x = T /\ y = T
TraceSpec == TraceInit /\ [][Observe]_tvars
Accepted ==
  LET consumed == TLCGet("stats").diameter - 1 IN
  /\ PrintT(<<"CONSUMED", ToJson([n |-> consumed, of |-> Len(Rec)])>>)
  /\ consumed = Len(Rec)
Report == \A b \in bad : PrintT(<<"JUDGED", ToJson([line |-> l - 1, kind |-> b])>>)
=============================================================================

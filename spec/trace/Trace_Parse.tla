--------------------------- MODULE Trace_Parse ---------------------------
(***************************************************************************)
(* Trace validation for C03 (validate / safeParse / parse agree; parsed    *)
(* data is a faithful projection) and C12 (decode errors are present,      *)
(* bounded and point into the input).  The output of parse is not          *)
(* predicted, it is judged: every logged call must satisfy the relations   *)
(* below.  One trace line = one program with, per probe value, the four    *)
(* ParseOptions combinations.                                              *)
(***************************************************************************)
EXTENDS BeffSem, Json, IOUtils, TLCExt

Rec  == ndJsonDeserialize(IOEnv.TRACE)
Open == LET o == ndJsonDeserialize(IOEnv.OPEN) IN {o[1].devs[i] : i \in DOMAIN o[1].devs}

VARIABLES l, bad
tvars == <<l, bad>>

StartsWith(s, pre) == Len(s) >= Len(pre) /\ SubSeq(s, 1, Len(pre)) = pre
Contains(s, sub) == \E i \in 1..(Len(s) - Len(sub) + 1) : SubSeq(s, i, i + Len(sub) - 1) = sub

\* ------------------------------------------------------------------ value relations
RECURSIVE SameUnordered(_, _), SubValue(_, _)
\* equal up to the order of object keys
SameUnordered(a, b) ==
  IF a.k # b.k THEN FALSE
  ELSE CASE a.k = "obj" -> /\ Keys(a) = Keys(b)
                           /\ \A key \in Keys(a) : SameUnordered(Get(a, key), Get(b, key))
         [] a.k = "arr" -> Len(a.es) = Len(b.es) /\ \A i \in DOMAIN a.es : SameUnordered(a.es[i], b.es[i])
         [] a.k = "set" -> Len(a.es) = Len(b.es) /\ \A i \in DOMAIN a.es : SameUnordered(a.es[i], b.es[i])
         [] a.k = "map" -> Len(a.es) = Len(b.es) /\ \A i \in DOMAIN a.es :
                              SameUnordered(a.es[i].mk, b.es[i].mk) /\ SameUnordered(a.es[i].mv, b.es[i].mv)
         [] OTHER -> a = b

\* d consists only of parts of i, leaves preserved in kind and content
SubValue(d, i) ==
  IF d.k # i.k
  THEN \* a Date / Map / Set / typed array accepted where an object type is declared projects to the empty
       \* object (acceptance itself is contested: don't care)
       d.k = "obj" /\ d.ps = <<>> /\ i.k \in {"date", "map", "set", "ta"}
  ELSE CASE d.k = "obj" -> /\ Keys(d) \subseteq Keys(i)
                           /\ \A key \in Keys(d) : SubValue(Get(d, key), Get(i, key))
         \* a tuple input shorter than the declared prefix is contested (BeffSem.TupM3); the rebuilt tuple may
         \* then carry undefined for the missing positions
         [] d.k = "arr" -> /\ Len(d.es) >= Len(i.es)
                           /\ \A j \in DOMAIN d.es : IF j <= Len(i.es) THEN SubValue(d.es[j], i.es[j]) ELSE d.es[j] = VUndef
         [] d.k = "set" -> Len(d.es) = Len(i.es) /\ \A j \in DOMAIN d.es : SubValue(d.es[j], i.es[j])
         [] d.k = "map" -> Len(d.es) = Len(i.es) /\ \A j \in DOMAIN d.es :
                              SubValue(d.es[j].mk, i.es[j].mk) /\ SubValue(d.es[j].mv, i.es[j].mv)
         [] OTHER -> d = i

\* every key of d is declared by some branch of the type(s) that the input matches there
RECURSIVE Declared(_, _, _, _)
Declared(d, i, S, env) ==
  LET atoms == {b \in UNION {Branches(t, env) : t \in S} : M3(i, b, env, {}, FALSE) # "F"} IN
  \* no branch of the reference explains why the input was accepted (a contested acceptance, e.g. `undefined` for a required
  \* property that admits null): nothing to compare the kept keys with
  IF atoms = {} THEN TRUE
  ELSE IF \E b \in atoms : b.t \in {"prim", "both"} /\ (b.t = "both" \/ b.p \in {"any", "unknown", "object"}) THEN TRUE
  ELSE CASE d.k = "obj" ->
              \A key \in Keys(d) :
                LET declaring == {b \in atoms : b.t = "obj" /\ (HasProp(b, key) \/
                                     (b.ix # <<>> /\ M3(VStr(key), b.ix[1].kt, env, {}, FALSE) # "F"))}
                    sub == {IF HasProp(b, key) THEN b.ps[PropIdx(b, key)].ty ELSE b.ix[1].vt : b \in declaring}
                IN declaring # {} /\ Declared(Get(d, key), Get(i, key), sub, env)
         [] d.k = "arr" ->
              \A j \in DOMAIN d.es :
                LET sub == {IF b.t = "arr" THEN b.e ELSE IF j <= Len(b.es) THEN b.es[j] ELSE b.r[1]
                            : b \in {b \in atoms : b.t = "arr" \/ (b.t = "tuple" /\ (j <= Len(b.es) \/ b.r # <<>>))}}
                IN Declared(d.es[j], IF j <= Len(i.es) THEN i.es[j] ELSE VUndef, sub, env)
         [] d.k = "set" ->
              \A j \in DOMAIN d.es : Declared(d.es[j], i.es[j], {b.e : b \in {b \in atoms : b.t = "set"}}, env)
         [] d.k = "map" ->
              \A j \in DOMAIN d.es : Declared(d.es[j].mv, i.es[j].mv, {b.vt : b \in {b \in atoms : b.t = "map"}}, env)
         [] OTHER -> TRUE

\* ------------------------------------------------------------------ error paths (C12)
Pos(ok, v, miss, unk) == [ok |-> ok, v |-> v, miss |-> miss, unk |-> unk]
JsonAtomKey(v) == v.k \in {"str", "bool", "null", "big"} \/ (v.k = "num" /\ v.n \notin {"NaN", "Infinity", "-Infinity", "-0"})
Step(cur, seg) ==
  IF ~cur.ok \/ cur.miss THEN Pos(FALSE, VUndef, FALSE, FALSE)
  ELSE IF cur.unk THEN cur
  ELSE LET c == cur.v IN
    IF c.k = "arr" /\ seg.idx >= 0
    THEN IF seg.idx < Len(c.es) THEN Pos(TRUE, Deh(c.es[seg.idx + 1]), FALSE, FALSE) ELSE Pos(TRUE, VUndef, TRUE, FALSE)
    ELSE IF c.k = "map" /\ seg.fn \in {"key", "value"}
    THEN IF seg.argok /\ \E j \in DOMAIN c.es : c.es[j].mk = seg.arg
         THEN LET j == CHOOSE j \in DOMAIN c.es : c.es[j].mk = seg.arg IN
              Pos(TRUE, IF seg.fn = "key" THEN c.es[j].mk ELSE c.es[j].mv, FALSE, FALSE)
         \* a key that JSON cannot spell (Date, typed array, object) is addressed lossily: position unknown, don't care
         ELSE IF \E j \in DOMAIN c.es : ~JsonAtomKey(c.es[j].mk) THEN Pos(TRUE, VUndef, FALSE, TRUE)
         ELSE Pos(FALSE, VUndef, FALSE, FALSE)
    ELSE IF c.k = "set" /\ seg.fn = "item"
    THEN IF seg.argok /\ \E j \in DOMAIN c.es : c.es[j] = seg.arg THEN Pos(TRUE, seg.arg, FALSE, FALSE)
         ELSE IF \E j \in DOMAIN c.es : ~JsonAtomKey(c.es[j]) THEN Pos(TRUE, VUndef, FALSE, TRUE)
         ELSE Pos(FALSE, VUndef, FALSE, FALSE)
    \* an object whose properties are inherited (class "inh"): own-property and structural reading differ, position unknown
    ELSE IF c.k = "obj" /\ c.c = "inh" THEN Pos(TRUE, VUndef, FALSE, TRUE)
    ELSE IF IsObjLike(c) \/ c.k = "arr"
    THEN IF HasKey(c, seg.raw) THEN Pos(TRUE, Get(c, seg.raw), FALSE, FALSE) ELSE Pos(TRUE, VUndef, TRUE, FALSE)
    ELSE Pos(FALSE, VUndef, FALSE, FALSE)

RECURSIVE Walk(_, _, _)
Walk(cur, path, j) == IF j > Len(path) THEN cur ELSE Walk(Step(cur, path[j]), path, j + 1)

\* set of complaint kinds for one error (recursively through union errors), prefix = absolute parent path
RECURSIVE ErrBad(_, _, _)
ErrBad(input, prefix, e) ==
  LET abs == prefix \o e.path
      p == Walk(Pos(TRUE, input, FALSE, FALSE), abs, 1)
      \* deviation "ixKeyErrorReceivedIsKey": an index-signature key error reports the key itself as received
      isKey == abs # <<>> /\ e.received = VStr(abs[Len(abs)].raw) /\ ~p.miss
  IN (IF ~p.ok THEN {"path-unresolved"}
      ELSE IF p.unk \/ p.v = e.received THEN {}
      ELSE IF isKey THEN {"received-is-the-key"} ELSE {"received-mismatch"})
     \cup (IF e.union THEN UNION {ErrBad(input, abs, e.errs[j]) : j \in DOMAIN e.errs} ELSE {})
     \cup (IF e.union /\ e.errs = <<>> THEN {"empty-union-error"} ELSE {})

\* ------------------------------------------------------------------ judgement of one call
OptStrict(o) == o \in {"sd", "ss"}
DocumentedFailure(s) == StartsWith(s, "Error:Failed to parse ")

C03Bad(r, ob, sp) ==
  LET v == ob.v IN
  (IF sp.val \notin {"T", "F"} THEN {"validate-threw"} ELSE {})
  \cup (IF sp.ok = "E" THEN {"safeParse-threw"} ELSE IF sp.ok \notin {"T", "F"} THEN {"safeParse-bad-result"} ELSE {})
  \cup (IF sp.val \in {"T", "F"} /\ sp.ok \in {"T", "F"} /\ sp.ok # sp.val THEN {"safeParse-disagrees-with-validate"} ELSE {})
  \cup (IF sp.val = "T" /\ ~sp.pret THEN {"parse-threw-on-valid"} ELSE {})
  \cup (IF sp.val = "F" /\ sp.pret THEN {"parse-returned-on-invalid"} ELSE {})
  \cup (IF ~sp.pret /\ sp.val = "F" /\ ~DocumentedFailure(sp.pthrown) THEN {"parse-threw-undocumented"} ELSE {})
  \cup (IF sp.after # v THEN {"input-mutated"} ELSE {})
  \cup (IF sp.ok = "T" THEN
          (IF ~SubValue(sp.data, v) THEN {"data-not-part-of-input"} ELSE {})
          \cup (IF SubValue(sp.data, v) /\ ~Declared(sp.data, v, {r.ty}, r.env) THEN {"data-has-undeclared-key"} ELSE {})
          \cup (IF sp.reval # "T" THEN {"data-rejected-by-same-validator"} ELSE {})
          \cup (IF sp.againok # "T" \/ sp.again # sp.data THEN {"reparse-differs"} ELSE {})
          \cup (IF sp.pret /\ sp.pdata # sp.data THEN {"parse-and-safeParse-differ"} ELSE {})
        ELSE {})

C12Bad(r, ob, sp) ==
  IF sp.ok # "F" THEN {}
  ELSE (IF sp.nerrs < 1 THEN {"no-errors"} ELSE IF sp.nerrs > 10 THEN {"too-many-errors"} ELSE {})
       \cup UNION {ErrBad(ob.v, <<>>, sp.errs[j]) : j \in DOMAIN sp.errs}
       \cup (IF ~sp.pret /\ sp.printed2 # sp.pthrown THEN {"render-nondeterministic"} ELSE {})
       \cup (IF ~sp.pret /\ ~DocumentedFailure(sp.pthrown) THEN {"render-threw"} ELSE {})

\* sorted vs input key order: equal up to key order (C03)
OrderBad(ob) ==
  LET byOpt == [o \in {"dd", "ds", "sd", "ss"} |-> ob.sp[CHOOSE j \in DOMAIN ob.sp : ob.sp[j].opt = o]] IN
  (IF byOpt["dd"].ok = "T" /\ byOpt["ds"].ok = "T" /\ ~SameUnordered(byOpt["dd"].data, byOpt["ds"].data)
   THEN {"keyorder-changes-content"} ELSE {})
  \cup (IF byOpt["sd"].ok = "T" /\ byOpt["ss"].ok = "T" /\ ~SameUnordered(byOpt["sd"].data, byOpt["ss"].data)
   THEN {"keyorder-changes-content"} ELSE {})

\* Known deviations (open findings): a complaint is explained iff the named predicate holds of the call
Explained(prop, kind, r, ob, sp) ==
  IF kind = "received-is-the-key" /\ "ixKeyErrorReceivedIsKey" \in Open THEN "ixKeyErrorReceivedIsKey"
  ELSE "NEW"

JudgeProbe(r, i) ==
  LET ob == r.obs[i] IN
  UNION { { [line |-> l, id |-> r.id, probe |-> i, opt |-> ob.sp[j].opt, prop |-> "C03", kind |-> kd,
             class |-> Explained("C03", kd, r, ob, ob.sp[j])] : kd \in C03Bad(r, ob, ob.sp[j]) }
          \cup
          { [line |-> l, id |-> r.id, probe |-> i, opt |-> ob.sp[j].opt, prop |-> "C12", kind |-> kd,
             class |-> Explained("C12", kd, r, ob, ob.sp[j])] : kd \in C12Bad(r, ob, ob.sp[j]) }
        : j \in DOMAIN ob.sp }
  \cup { [line |-> l, id |-> r.id, probe |-> i, opt |-> "all", prop |-> "C03", kind |-> kd, class |-> "NEW"] : kd \in OrderBad(ob) }

Observe ==
  /\ l <= Len(Rec)
  /\ LET r == Rec[l] IN
     /\ r.ev = "prog"
     /\ bad' = IF r.outcome = "code" /\ r.load = "ok" THEN UNION {JudgeProbe(r, i) : i \in DOMAIN r.obs} ELSE {}
  /\ l' = l + 1

TraceInit == l = 1 /\ bad = {}
TraceSpec == TraceInit /\ [][Observe]_tvars

Accepted ==
  LET consumed == TLCGet("stats").diameter - 1 IN
  /\ PrintT(<<"CONSUMED", ToJson([n |-> consumed, of |-> Len(Rec)])>>)
  /\ consumed = Len(Rec)

Report == \A b \in bad : PrintT(<<"JUDGED", ToJson(b)>>)
=============================================================================

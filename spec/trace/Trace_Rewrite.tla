--------------------------- MODULE Trace_Rewrite ---------------------------
(***************************************************************************)
(* Trace validation for C08 / C13 (invariance part): every line is one     *)
(* program of a rewrite class (all states reachable from one seed by       *)
(* meaning-preserving rewrites, Rewrite.tla) with the observed validate    *)
(* vector over the seed's probes, hash256 and hash.  Within a class the    *)
(* observables must be equal to those of the seed.                         *)
(***************************************************************************)
EXTENDS Naturals, Sequences, FiniteSets, TLC, Json, IOUtils, TLCExt

Rec == ndJsonDeserialize(IOEnv.TRACE)
Open == LET o == ndJsonDeserialize(IOEnv.OPEN) IN {o[1].devs[i] : i \in DOMAIN o[1].devs}
VARIABLES l, first, bad
tvars == <<l, first, bad>>

\* rewrites under which the 32-bit hash() is promised to be stable (C13)
Base(rn) == rn   \* rule names carry suffixes @member / @decl
H32StableBase == {"PermuteProps", "PermuteUnion", "PermuteInter", "IntroduceAlias", "InlineAlias", "InlineAlias@recursive", "ExtractVariantAlias",
                  "AddComment", "AddJSDoc", "PermuteDecls", "NestUnion", "FlattenUnion", "AddParens"}
Suffixes == {"", "@decl", "@member", "@member@decl"}
H32Stable == {b \o x : b \in H32StableBase, x \in Suffixes}

\* Known deviation "aliasAtMemberChangesDigest": introducing an alias / generic / interface boundary inside a member
\* of a union or intersection changes the IR order (and compile-time merging) of the members, and hash256 / hash
\* write members in that order.
AliasBoundaryAtMember == {b \o x : b \in {"IntroduceAlias", "ExtractVariantAlias", "WrapGenericIdentity", "ObjectToInterface", "InlineAlias", "InlineAlias@recursive"},
                                   x \in {"@member", "@member@decl"}}
                         \cup {"RenameAlias@member"}    \* reference members are ordered by their names
\* Known deviation "unrolledRecursionDigest": inlining a reference to a recursive named type is one unrolling of the
\* recursion; the digest of an unrolling differs from the digest of the named type (the accepted values do not).
UnrollsRecursion == {"InlineAlias@recursive" \o x : x \in Suffixes}
RuleSet(r) == {r.rules[i] : i \in DOMAIN r.rules}
\* the part of the vector before "|" is default mode, after it strict mode
Half(v, which) == LET n == (Len(v) - 1) \div 2 IN IF which = 1 THEN SubSeq(v, 1, n) ELSE SubSeq(v, n + 2, Len(v))

Classify(kind, r, f) ==
  IF kind \in {"hash256-differs", "hash-differs"} /\ RuleSet(r) \cap AliasBoundaryAtMember # {} /\ "aliasAtMemberChangesDigest" \in Open
  THEN "aliasAtMemberChangesDigest"
  ELSE IF kind \in {"hash256-differs", "hash-differs"} /\ RuleSet(r) \cap UnrollsRecursion # {} /\ r.vec = f.vec
          /\ "unrolledRecursionDigest" \in Open
  THEN "unrolledRecursionDigest"
  ELSE IF kind = "validate-vector-differs" /\ Half(r.vec, 1) = Half(f.vec, 1) /\ RuleSet(r) \cap AliasBoundaryAtMember # {}
          /\ "strictPerInterMember" \in Open
  THEN "strictPerInterMember"
  ELSE "NEW"

Observe ==
  /\ l <= Len(Rec)
  /\ LET r == Rec[l] IN
     IF r.steps = 0
     THEN /\ first' = (r.seed :> r) @@ first
          /\ bad' = IF r.outcome # "code" THEN {[kind |-> "seed-does-not-compile", class |-> "NEW"]} ELSE {}
     ELSE /\ first' = first
          /\ bad' = IF r.seed \notin DOMAIN first THEN {[kind |-> "no-seed-observation", class |-> "NEW"]}
                    ELSE LET f == first[r.seed] IN
                      (IF r.outcome # "code" THEN {[kind |-> "rewritten-program-does-not-compile", class |-> "NEW"]} ELSE
                        { [kind |-> k, class |-> Classify(k, r, f)] :
                          k \in (IF r.vec # f.vec THEN {"validate-vector-differs"} ELSE {})
                                \cup (IF r.h256 # f.h256 THEN {"hash256-differs"} ELSE {})
                                \cup (IF r.h32 # f.h32 /\ RuleSet(r) \subseteq H32Stable THEN {"hash-differs"} ELSE {}) })
  /\ l' = l + 1

TraceInit == l = 1 /\ first = <<>> /\ bad = {}
TraceSpec == TraceInit /\ [][Observe]_tvars
Accepted ==
  LET consumed == TLCGet("stats").diameter - 1 IN
  /\ PrintT(<<"CONSUMED", ToJson([n |-> consumed, of |-> Len(Rec)])>>)
  /\ consumed = Len(Rec)
Report == \A b \in bad : PrintT(<<"JUDGED", ToJson([line |-> l - 1, kind |-> b.kind, class |-> b.class])>>)
=============================================================================

--------------------------- MODULE Trace_Compile ---------------------------
(***************************************************************************)
(* C04: compilation is total.  One line per compiled project: the outcome  *)
(* observed by the harness (child process + watchdog + panic hook), the    *)
(* diagnostics, the line lengths of every project file, and for successful *)
(* compilations whether the emitted module loaded against the client       *)
(* runtime and built a parser for every requested name.                    *)
(***************************************************************************)
EXTENDS Naturals, Sequences, FiniteSets, TLC, Json, IOUtils, TLCExt
Rec  == ndJsonDeserialize(IOEnv.TRACE)
Open == LET o == ndJsonDeserialize(IOEnv.OPEN) IN {o[1].devs[i] : i \in DOMAIN o[1].devs}
VARIABLES l, bad
tvars == <<l, bad>>

Contains(s, sub) == \E i \in 1..(Len(s) - Len(sub) + 1) : SubSeq(s, i, i + Len(sub) - 1) = sub
FileNames(r) == {r.files[i].name : i \in DOMAIN r.files}
FileOf(r, n) == r.files[CHOOSE i \in DOMAIN r.files : r.files[i].name = n]

DiagBad(r, d) ==
  IF d.kind = "known"
  THEN IF d.file \notin FileNames(r) THEN {"diagnostic-names-a-file-outside-the-project"}
       ELSE LET f == FileOf(r, d.file)  n == Len(f.lines) IN
            IF ~(1 <= d.line_lo /\ d.line_lo <= d.line_hi /\ d.line_hi <= n) THEN {"diagnostic-line-range-outside-file"}
            ELSE IF ~(0 <= d.col_lo /\ d.col_lo <= f.lines[d.line_lo] /\ 0 <= d.col_hi /\ d.col_hi <= f.lines[d.line_hi])
                 THEN {"diagnostic-column-outside-line"}
            ELSE IF d.line_lo = d.line_hi /\ d.col_lo > d.col_hi THEN {"diagnostic-range-inverted"} ELSE {}
  ELSE \* no location: only acceptable for a file that could not be read / parsed at all
       IF d.file \in FileNames(r) /\ FileOf(r, d.file).parses THEN {"diagnostic-without-location-for-a-readable-file"}
       ELSE IF d.file \notin FileNames(r) /\ d.file \notin {r.requested[i] : i \in DOMAIN r.requested}
       THEN {"diagnostic-names-a-file-outside-the-project"} ELSE {}

Complaints(r) ==
  IF r.outcome = "code"
  THEN (IF r.load # "ok" THEN {"emitted-module-does-not-load"} ELSE {})
       \cup (IF r.load = "ok" /\ ~r.names_ok THEN {"parser-missing-for-a-requested-name"} ELSE {})
  ELSE IF r.outcome = "diags"
  THEN (IF r.diags = <<>> THEN {"neither-code-nor-diagnostic"} ELSE {})
       \cup UNION {DiagBad(r, r.diags[i]) : i \in DOMAIN r.diags}
  ELSE {"compile-" \o r.outcome}

\* known deviations are recognised by the panic message / the construct, never by line numbers
Explain(kind, r) ==
  IF kind = "compile-panic" /\ Contains(r.msg, "should not create decoders for semantic types") /\ "stNotReachesPrinter" \in Open
  THEN "stNotReachesPrinter"
  ELSE IF kind = "compile-panic" /\ Contains(r.msg, "empty anyOf is not allowed") /\ "emptyAnyOfReachesPrinter" \in Open
  THEN "emptyAnyOfReachesPrinter"
  ELSE IF kind \in {"compile-abort", "compile-timeout"} /\ r.cyclic /\ "cyclicAliasDiverges" \in Open
  THEN "cyclicAliasDiverges"
  ELSE "NEW"

Observe ==
  /\ l <= Len(Rec)
  /\ bad' = {[kind |-> k, class |-> Explain(k, Rec[l])] : k \in Complaints(Rec[l])}
  /\ l' = l + 1
TraceInit == l = 1 /\ bad = {}
TraceSpec == TraceInit /\ [][Observe]_tvars
Accepted ==
  LET consumed == TLCGet("stats").diameter - 1 IN
  /\ PrintT(<<"CONSUMED", ToJson([n |-> consumed, of |-> Len(Rec)])>>)
  /\ consumed = Len(Rec)
Report == \A b \in bad : PrintT(<<"JUDGED", ToJson([line |-> l - 1, kind |-> b.kind, class |-> b.class])>>)
=============================================================================

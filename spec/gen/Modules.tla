--------------------------- MODULE Modules ---------------------------
(***************************************************************************)
(* C09: distribution of the declarations of ONE program over files, with   *)
(* every mix of import / export styles, as a state machine.  The program:  *)
(*     type B = "x" | "y"                                                  *)
(*     type A = { a: string; b?: B; self?: A }        (uses B, recursive)  *)
(*     const k = { v: 1 } as const                    (a value)            *)
(*     type T = { a: A; b: B; k: typeof k; g: G<B> }  (the root, in entry) *)
(*       (+ e: E.P; f: E2.P; g3: E3.P; ev: typeof E.Q; and the enums E, E2  *)
(*        as whole types in optional properties ee / eo / ff / fo)          *)
(*     type G<X> = { x: X }                           (generic)            *)
(*     enum E { P = "p", Q = "q" }      used only as the member type E.P   *)
(*     enum E2 { P = "fp", R = "r" }    used only as E2.P; in a file other *)
(*         than entry and E's file it is DECLARED under the name E (two    *)
(*         same-named enums in two files, imported as { E as E2 })         *)
(* A state (layout) says in which file each declaration lives, how it is   *)
(* exported, and how each use site reaches it.  Actions change one aspect. *)
(* Every well-formed layout must compile to validators identical to the    *)
(* single-file program (the initial state); a layout with a broken         *)
(* reference must produce a diagnostic.                                    *)
(***************************************************************************)
EXTENDS Naturals, Sequences, FiniteSets, TLC

CONSTANTS MaxSteps

Decls == {"A", "B", "k", "G", "E", "E2", "E3"}
Files == {"entry", "m1", "m2", "m3", "m4"}     \* rendered as entry.ts, a/b/t.ts, a/3c/t.ts, 3c/t.ts, a_b/t.ts (nested directories,
                                                \* one base name; a/b/t.ts and a_b/t.ts sanitize to the same identifier part)
Sites == {<<"T", "A">>, <<"T", "B">>, <<"T", "k">>, <<"T", "G">>, <<"A", "B">>, <<"T", "E">>, <<"T", "E2">>, <<"T", "E3">>}     \* <<user, used>>
ExportStyles == {"inline", "list", "renamed", "default", "defaultExpr"}   \* defaultExpr (k only): export default { v: kin } as const
ImportStyles == {"named", "renamedImport", "namespace", "typeonly", "importtype", "hopnamed", "hopstar", "hopns"}
Kinds == {"ts", "dts", "tsx"}

NoSite == <<"none", "none">>
\* import styles that bind the plain local name of the declaration in the importing file
BindsPlainName == {"named", "typeonly", "hopnamed", "hopstar"}

VARIABLES place, exp, imp, kind, decoy, broken, steps
vars == <<place, exp, imp, kind, decoy, broken, steps>>

FileOfUser(u) == IF u = "T" THEN "entry" ELSE place[u]
CrossFile(s) == FileOfUser(s[1]) # place[s[2]]

\* ------------------------------------------------------------------ well-formedness (TypeScript's rules for the chosen syntax)
WellFormed(pl, ex, im, kd, dc) ==
  \* at most one default export per file
  /\ \A f \in Files : Cardinality({d \in Decls : pl[d] = f /\ ex[d] \in {"default", "defaultExpr"}}) <= 1
  /\ \A d \in Decls : ex[d] = "defaultExpr" => d = "k"
  /\ \A s \in Sites :
       LET d == s[2] IN
       (IF s[1] = "T" THEN "entry" ELSE pl[s[1]]) # pl[d] =>
         \* a default export is not re-exported by `export *` and has no name inside a namespace object
         /\ (ex[d] \in {"default", "defaultExpr"} => im[s] \in {"named", "renamedImport", "typeonly"})
         \* `import type` cannot be used for the value k's initialiser, but `typeof k` in a type position is fine
         /\ TRUE
  \* E2 / E3 declared as E in files of their own: the hop file must not receive the name E from two files (duplicate / ambiguous export)
  /\ LET asE(d) == d = "E" \/ (d = "E2" /\ pl["E2"] \notin {"entry", pl["E"]}) \/ (d = "E3" /\ pl["E3"] \notin {"entry", pl["E"], pl["E2"]})
         cross(t) == (IF t[1] = "T" THEN "entry" ELSE pl[t[1]]) # pl[t[2]]
         hopUsed == \E t \in Sites : cross(t) /\ im[t] \in {"hopnamed", "hopstar", "hopns"}
         starFiles == {pl[t[2]] : t \in {t \in Sites : cross(t) /\ im[t] = "hopstar"}}
                      \cup (IF hopUsed /\ dc \notin {"none", "entry"} THEN {dc} ELSE {})      \* (the decoy's file is re-exported by a star, see below)
         plain(d) == cross(<<"T", d>>) /\ im[<<"T", d>>] \in {"hopnamed", "hopstar"}
         feeds(d) == plain(d) \/ pl[d] \in starFiles
     IN \A d1, d2 \in {"E", "E2", "E3"} : (d1 # d2 /\ asE(d1) /\ asE(d2) /\ pl[d1] # pl[d2] /\ (plain(d1) \/ plain(d2))) => ~(feeds(d1) /\ feeds(d2))
  \* the entry file is always a .ts file; a .d.ts file cannot hold a const with an initialiser: k is declared there instead
  /\ kd["entry"] = "ts"
  \* the decoy `export type B = number` lives in a file where the name B is neither declared nor bound by an import.  When there
  \* is a hop file it also says `export * from <decoy file>`: an explicit `export { B } from ..` of the hop file takes precedence
  \* over the star (TypeScript), but two stars that both bring a B make the name ambiguous - then nobody may ask the hop file for B
  /\ (dc \notin {"none", "entry"} /\ \E t \in Sites : (IF t[1] = "T" THEN "entry" ELSE pl[t[1]]) # pl[t[2]] /\ im[t] \in {"hopnamed", "hopstar", "hopns"})
       => LET viaHop(st) == \E t \in Sites : t[2] = "B" /\ (IF t[1] = "T" THEN "entry" ELSE pl[t[1]]) # pl["B"] /\ im[t] = st
          IN viaHop("hopstar") => viaHop("hopnamed")
  /\ dc # "none" => /\ dc # pl["B"]
                    /\ \A s \in Sites : (s[2] = "B" /\ (IF s[1] = "T" THEN "entry" ELSE pl[s[1]]) = dc /\ pl["B"] # dc) => im[s] \notin BindsPlainName

Init == /\ place = [d \in Decls |-> "entry"]
        /\ exp = [d \in Decls |-> "inline"]
        /\ imp = [s \in Sites |-> "named"]
        /\ kind = [f \in Files |-> "ts"]
        /\ decoy = "none" /\ broken = NoSite /\ steps = 0

Move(d, f) == /\ place' = [place EXCEPT ![d] = f] /\ place[d] # f
              /\ UNCHANGED <<exp, imp, kind, decoy, broken>>
SetExport(d, st) == /\ exp' = [exp EXCEPT ![d] = st] /\ exp[d] # st /\ place[d] # "entry"
                    /\ UNCHANGED <<place, imp, kind, decoy, broken>>
SetImport(s, st) == /\ imp' = [imp EXCEPT ![s] = st] /\ imp[s] # st /\ CrossFile(s)
                    /\ UNCHANGED <<place, exp, kind, decoy, broken>>
SetKind(f, kd) == /\ f # "entry" /\ kind' = [kind EXCEPT ![f] = kd] /\ kind[f] # kd
                  /\ \E d \in Decls : place[d] = f
                  /\ UNCHANGED <<place, exp, imp, decoy, broken>>
\* a same-named, different type B in another file that nobody imports
AddDecoy(f) == /\ decoy = "none" /\ f # place["B"] /\ decoy' = f
               /\ UNCHANGED <<place, exp, imp, kind, broken>>
\* the import of one cross-file site names an export that does not exist
Break(s) == /\ broken = NoSite /\ CrossFile(s) /\ broken' = s
            /\ imp[s] \in {"named", "renamedImport", "typeonly", "namespace", "importtype"}
            /\ UNCHANGED <<place, exp, imp, kind, decoy>>

Next == /\ steps < MaxSteps /\ steps' = steps + 1
        /\ broken = NoSite              \* a broken layout is terminal
        /\ \/ \E d \in Decls, f \in Files : Move(d, f)
           \/ \E d \in Decls, st \in ExportStyles : SetExport(d, st)
           \/ \E s \in Sites, st \in ImportStyles : SetImport(s, st)
           \/ \E f \in Files, kd \in Kinds : SetKind(f, kd)
           \/ \E f \in Files : AddDecoy(f)
           \/ \E s \in Sites : Break(s)
        /\ WellFormed(place', exp', imp', kind', decoy')
Spec == Init /\ [][Next]_vars

\* ------------------------------------------------------------------ reference resolution of the layout (TypeScript's reading)
\* which declaration does use site s reach?  By construction of the rendering rules every non-broken well-formed layout
\* resolves each site to the declaration of the base program; a decoy is never imported.
Resolves(s) == IF broken = s THEN "unresolved" ELSE s[2]
AllResolve == \A s \in Sites : broken # s => Resolves(s) = s[2]
\* the name under which E2 is declared in its file
DeclaredName(d) == IF d = "E2" /\ place["E2"] \notin {"entry", place["E"]} THEN "E"
                   ELSE IF d = "E3" /\ place["E3"] \notin {"entry", place["E"], place["E2"]} THEN "E" ELSE d
ExpectedOutcome == IF broken = NoSite THEN "same-as-single-file" ELSE "diagnostic"
=============================================================================

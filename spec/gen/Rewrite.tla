--------------------------- MODULE Rewrite ---------------------------
(***************************************************************************)
(* Meaning-preserving rewrites of programs as a state machine (C08, C13).  *)
(* A state is a program; an action applies one of the rewrites named in    *)
(* property C08 at one position of the root type, or to the declarations.  *)
(* All states reachable from a seed must be observationally equal to it    *)
(* (validate vectors, hash256, hash).  The invariant RulesPreserveMeaning  *)
(* guards MY rules: every rewrite must preserve the reference membership.  *)
(***************************************************************************)
EXTENDS Probe

CONSTANTS MaxSteps, SeedSet

O(ps) == Obj(ps, <<>>)
RECURSIVE Flat2(_)
Flat2(ss) == IF ss = <<>> THEN <<>> ELSE Head(ss) \o Flat2(Tail(ss))
HandSeeds == <<
  [env |-> <<>>, ty |-> Uni(<<LS("a"), LS("b"), LS("c")>>)],
  [env |-> <<>>, ty |-> Uni(<<LS("a"), LN("1"), TNull>>)],
  [env |-> <<>>, ty |-> Uni(<<TString, TNumber, TNull>>)],
  [env |-> <<>>, ty |-> O(<<Prop("a", TString, FALSE), Prop("b", TNumber, TRUE)>>)],
  [env |-> <<>>, ty |-> O(<<Prop("a", O(<<Prop("x", TString, FALSE), Prop("y", TNumber, FALSE)>>), FALSE), Prop("b", Arr(TString), FALSE)>>)],
  [env |-> <<>>, ty |-> Uni(<<O(<<Prop("k", LS("x"), FALSE), Prop("a", TString, FALSE)>>),
                              O(<<Prop("k", LS("y"), FALSE), Prop("b", TNumber, FALSE)>>)>>)],
  [env |-> <<>>, ty |-> Uni(<<O(<<Prop("k", LS("x"), FALSE), Prop("a", TString, FALSE)>>),
                              O(<<Prop("k", LS("y"), FALSE), Prop("b", TNumber, FALSE)>>),
                              O(<<Prop("k", LS("z"), FALSE), Prop("a", TNumber, TRUE)>>)>>)],
  [env |-> <<>>, ty |-> Uni(<<O(<<Prop("k", Uni(<<LS("x"), LS("w")>>), FALSE), Prop("a", TString, FALSE)>>),
                              O(<<Prop("k", LS("y"), FALSE), Prop("a", TNumber, FALSE)>>)>>)],
  [env |-> <<>>, ty |-> Inter(<<O(<<Prop("a", TString, FALSE)>>), O(<<Prop("b", TNumber, FALSE)>>)>>)],
  [env |-> <<>>, ty |-> Inter(<<O(<<Prop("a", TString, FALSE)>>), Obj(<<>>, <<Ix(TString, Uni(<<TString, TNumber>>))>>)>>)],
  [env |-> <<>>, ty |-> Tup(<<TString, Uni(<<TNumber, TNull>>)>>, <<>>)],
  [env |-> <<>>, ty |-> Tup(<<TString>>, <<TNumber>>)],
  [env |-> <<>>, ty |-> Arr(Uni(<<LS("a"), LS("b")>>))],
  [env |-> <<>>, ty |-> Obj(<<Prop("a", TString, FALSE)>>, <<Ix(TString, Uni(<<TString, TNumber>>))>>)],
  [env |-> <<[n |-> "R", kind |-> "type", ty |-> O(<<Prop("v", TString, FALSE), Prop("next", Ref("R"), TRUE)>>)]>>, ty |-> Ref("R")],
  [env |-> <<[n |-> "R", kind |-> "type", ty |-> Uni(<<TString, Arr(Ref("R"))>>)]>>, ty |-> Ref("R")],
  [env |-> <<[n |-> "P", kind |-> "type", ty |-> O(<<Prop("q", Ref("Q"), TRUE)>>)],
             [n |-> "Q", kind |-> "type", ty |-> O(<<Prop("p", Ref("P"), TRUE), Prop("n", TNumber, FALSE)>>)]>>, ty |-> Ref("P")],
  [env |-> <<[n |-> "S", kind |-> "type", ty |-> Uni(<<LS("a"), LS("b")>>)]>>,
   ty |-> O(<<Prop("s", Ref("S"), FALSE), Prop("t", Ref("S"), FALSE), Prop("u", Uni(<<LS("a"), LS("b")>>), FALSE)>>)],
  [env |-> <<>>, ty |-> O(<<Prop("a", O(<<Prop("x", TString, FALSE)>>), FALSE), Prop("b", O(<<Prop("x", TString, FALSE)>>), FALSE),
                            Prop("c", O(<<Prop("x", TString, TRUE)>>), FALSE)>>)],
  [env |-> <<>>, ty |-> Uni(<<Tpl(<<TpLit("x"), TpNum>>), LS("y")>>)],
  [env |-> <<>>, ty |-> MapT(TString, Uni(<<TNumber, Prim("Date")>>))],
  [env |-> <<>>, ty |-> Uni(<<O(<<Prop("k", LS("x"), FALSE)>>), TNull, Arr(TNumber)>>)],
  \* a union variant that is an intersection of named types which both declare the discriminator (one wider, one narrower)
  [env |-> <<[n |-> "Base", kind |-> "type", ty |-> O(<<Prop("kind", Uni(<<LS("circle"), LS("ellipse")>>), FALSE), Prop("id", TString, FALSE)>>)],
             [n |-> "Cp",   kind |-> "type", ty |-> O(<<Prop("kind", LS("circle"), FALSE), Prop("r", TNumber, FALSE)>>)],
             [n |-> "Sq",   kind |-> "type", ty |-> O(<<Prop("kind", LS("sq"), FALSE), Prop("s", TNumber, FALSE)>>)]>>,
   ty |-> Uni(<<Inter(<<Ref("Base"), Ref("Cp")>>), Ref("Sq")>>)],
  \* two levels of tags: two variants share a value of the first discriminator
  \* (the two text variants have the same keys: their order among the union members is decided by the `format` types alone)
  [env |-> <<>>, ty |-> Uni(<<O(<<Prop("kind", LS("text"), FALSE), Prop("format", LS("plain"), FALSE), Prop("v", TString, FALSE)>>),
                              O(<<Prop("kind", LS("text"), FALSE), Prop("format", LS("html"), FALSE), Prop("v", TNumber, FALSE)>>),
                              O(<<Prop("kind", LS("img"), FALSE), Prop("c", TString, FALSE)>>)>>)],
  \* a generic whose body refers to an interface that mentions a declared type named like the generic's parameter
  [env |-> <<[n |-> "X", kind |-> "type", ty |-> TNumber],
             [n |-> "InI", kind |-> "interface", ty |-> O(<<Prop("x", Ref("X"), FALSE)>>)],
             [n |-> "W2", kind |-> "type", params |-> <<"X">>, ty |-> O(<<Prop("c", Ref("InI"), FALSE), Prop("d", Param("X"), FALSE)>>)]>>,
   ty |-> App("W2", <<TString>>)],
  \* intersection members that declare the same key with the same type but different optionality
  [env |-> <<>>, ty |-> Inter(<<O(<<Prop("id", TString, FALSE), Prop("note", TString, FALSE)>>),
                                O(<<Prop("note", TString, TRUE), Prop("tag", TNumber, FALSE)>>)>>)],
  \* a non-recursive alias that is met before a recursive one (inlining it must not renumber the recursion)
  [env |-> <<[n |-> "Al", kind |-> "type", ty |-> O(<<Prop("x", TString, FALSE)>>)],
             [n |-> "Rn", kind |-> "type", ty |-> O(<<Prop("next", Uni(<<Ref("Rn"), TNull>>), FALSE)>>)]>>,
   ty |-> O(<<Prop("a", Ref("Al"), FALSE), Prop("r", Ref("Rn"), FALSE)>>)],
  \* one named type at the same position of two members of a union that is tried member by member; next to an intersection with itself
  [env |-> <<[n |-> "Pt", kind |-> "type", ty |-> O(<<Prop("x", TNumber, FALSE), Prop("y", TNumber, FALSE)>>)]>>,
   ty |-> Uni(<<O(<<Prop("at", Ref("Pt"), FALSE), Prop("radius", TNumber, FALSE)>>), O(<<Prop("at", Ref("Pt"), FALSE), Prop("label", TString, FALSE)>>)>>)],
  [env |-> <<[n |-> "Pt", kind |-> "type", ty |-> O(<<Prop("x", TNumber, FALSE), Prop("y", TNumber, FALSE)>>)]>>,
   ty |-> Uni(<<Ref("Pt"), Inter(<<Ref("Pt"), O(<<Prop("name", TString, FALSE)>>)>>)>>)]
>>

\* Twin seeds: a type and a near-copy of it (one attribute changed: a literal, an optional mark, a rest element, an index signature,
\* one member ...) in ONE program, once inline and once with the first of them behind an alias.  Whatever the compiler shares between
\* equal-looking sub-validators (hoisted constants, dispatch tables, named references) must keep them apart under every rewrite -
\* introducing, inlining or renaming an alias changes the order in which the two are printed.
TwinBases == <<
  O(<<Prop("x", TString, FALSE), Prop("y", TNumber, TRUE)>>),
  Obj(<<Prop("x", TString, FALSE)>>, <<Ix(TString, TNumber)>>),
  Obj(<<>>, <<Ix(TString, Uni(<<TString, TNull>>))>>),
  Tup(<<TString, TNumber>>, <<>>),
  Tup(<<TString>>, <<TNumber>>),
  Arr(Uni(<<LS("a"), LS("b")>>)),
  Uni(<<LS("a"), LN("1"), TNull>>),
  Uni(<<O(<<Prop("k", LS("x"), FALSE), Prop("v", TString, FALSE)>>), O(<<Prop("k", LS("y"), FALSE), Prop("v", TNumber, FALSE)>>)>>),
  Inter(<<O(<<Prop("p", TString, FALSE)>>), O(<<Prop("q", TNumber, TRUE)>>)>>),
  MapT(TString, TNumber),
  Tpl(<<TpLit("x"), TpNum>>)
>>
TwinSeedsOf(T) == LET tw == SetToSeq(Twins(T)) IN
  Flat2([i \in DOMAIN tw |->
    << [env |-> <<>>, ty |-> O(<<Prop("a", T, FALSE), Prop("b", tw[i], FALSE)>>)],
       [env |-> <<[n |-> "Tw", kind |-> "type", ty |-> tw[i]]>>, ty |-> O(<<Prop("a", T, FALSE), Prop("b", Ref("Tw"), FALSE)>>)] >>])
TwinSeeds == Flat2([i \in DOMAIN TwinBases |-> TwinSeedsOf(TwinBases[i])])
Seeds == HandSeeds \o TwinSeeds
NHandSeeds == Len(HandSeeds)
NSeeds == Len(Seeds)

VARIABLES seed, env, ty, steps, rule, rules
vars == <<seed, env, ty, steps, rule, rules>>

\* a name not yet declared (every rule adds at most one declaration; the seeds have at most three)
FreshNames == <<"N0", "N1", "N2", "N3", "N4", "N5", "N6", "N7", "N8", "N9", "N10", "N11", "N12">>
Fresh(e) == FreshNames[CHOOSE i \in DOMAIN FreshNames : (\A j \in DOMAIN e : e[j].n # FreshNames[i]) /\ (\A k \in 1..(i - 1) : \E j \in DOMAIN e : e[j].n = FreshNames[k])]
IsDeclared(e, n) == \E i \in DOMAIN e : e[i].n = n
IsDeclaredIn(e, n) == \E i \in DOMAIN e : e[i].n = n
IdDecl == [n |-> "Id", kind |-> "type", params |-> <<"X">>, ty |-> Param("X")]
Res(t, add, r) == [ty |-> t, add |-> add, r |-> r]

Rotate(s) == Tail(s) \o <<Head(s)>>
EndsWith(s, suf) == Len(s) >= Len(suf) /\ SubSeq(s, Len(s) - Len(suf) + 1, Len(s)) = suf

\* names referenced in a type, and the names reachable from a declaration's body (bounded by the number of declarations)
RECURSIVE RefNames(_)
RefNames(T) ==
  CASE T.t = "ref"   -> {T.n}
    [] T.t = "app"   -> {T.n} \cup UNION {RefNames(T.args[i]) : i \in DOMAIN T.args}
    [] T.t \in {"arr", "set"} -> RefNames(T.e)
    [] T.t = "map"   -> RefNames(T.kt) \cup RefNames(T.vt)
    [] T.t = "tuple" -> UNION {RefNames(T.es[i]) : i \in DOMAIN T.es} \cup UNION {RefNames(T.r[i]) : i \in DOMAIN T.r}
    [] T.t = "obj"   -> UNION {RefNames(T.ps[i].ty) : i \in DOMAIN T.ps} \cup UNION {RefNames(T.ix[i].vt) : i \in DOMAIN T.ix}
    [] T.t \in {"union", "inter"} -> UNION {RefNames(T.ms[i]) : i \in DOMAIN T.ms}
    [] T.t = "deco"  -> RefNames(T.a)
    [] OTHER -> {}
RECURSIVE ReachFrom(_, _, _)
ReachFrom(e, S, fuel) ==
  LET nxt == S \cup UNION {RefNames(e[i].ty) : i \in {i \in DOMAIN e : e[i].n \in S}} IN
  IF fuel = 0 \/ nxt = S THEN S ELSE ReachFrom(e, nxt, fuel - 1)
RecursiveName(e, n) == IsDeclaredIn(e, n) /\ n \in ReachFrom(e, RefNames(Lookup(e, n)), Len(e))
\* rewrites applicable at the root of subterm T (e = current env)
Local(T, e) ==
  (IF T.t = "union" /\ Len(T.ms) >= 2
   THEN { Res(Uni(Reverse(T.ms)), <<>>, "PermuteUnion"), Res(Uni(Append(T.ms, T.ms[1])), <<>>, "DuplicateMember") }
        \cup (IF Len(T.ms) >= 3 THEN { Res(Uni(Rotate(T.ms)), <<>>, "PermuteUnion"),
                                        Res(Uni(<<T.ms[1], Uni(Tail(T.ms))>>), <<>>, "NestUnion") } ELSE {})
        \cup { Res(Uni(SubSeq(T.ms, 1, i - 1) \o T.ms[i].ms \o SubSeq(T.ms, i + 1, Len(T.ms))), <<>>, "FlattenUnion")
               : i \in {i \in DOMAIN T.ms : T.ms[i].t = "union"} }
        \cup { Res(Uni([T.ms EXCEPT ![i] = Ref(Fresh(e))]), <<[n |-> Fresh(e), kind |-> "type", ty |-> T.ms[i]]>>, "ExtractVariantAlias@member")
               : i \in {i \in DOMAIN T.ms : T.ms[i].t \notin {"ref", "prim"}} }
   ELSE {})
  \cup (IF T.t = "inter" /\ Len(T.ms) >= 2 THEN { Res(Inter(Reverse(T.ms)), <<>>, "PermuteInter") } ELSE {})
  \* a doc comment on an object-literal member of an intersection
  \cup (IF T.t = "inter" THEN { Res([T EXCEPT !.ms[i] = Deco("jsdocm", T.ms[i])], <<>>, "AddJSDoc@member") : i \in {i \in DOMAIN T.ms : T.ms[i].t = "obj"} } ELSE {})
  \cup (IF T.t = "obj" /\ Len(T.ps) >= 2 THEN { Res([T EXCEPT !.ps = Reverse(T.ps)], <<>>, "PermuteProps") } ELSE {})
  \cup (IF T.t = "obj" /\ Len(T.ps) >= 1
        THEN { Res([T EXCEPT !.ps[i].ty = Deco("jsdoc", T.ps[i].ty)], <<>>, "AddJSDoc") : i \in DOMAIN T.ps }
             \cup { Res(Ref(Fresh(e)), <<[n |-> Fresh(e), kind |-> "interface", ty |-> T]>>, "ObjectToInterface") }
        ELSE {})
  \cup (IF T.t \in {"arr", "tuple"} THEN { Res(Deco("readonly", T), <<>>, "AddReadonly") } ELSE {})
  \cup (IF T.t \notin {"ref", "deco", "param"}
        THEN { Res(Ref(Fresh(e)), <<[n |-> Fresh(e), kind |-> "type", ty |-> T]>>, "IntroduceAlias"),
               Res(Deco("parens", T), <<>>, "AddParens"),
               Res(Deco("comment", T), <<>>, "AddComment"),
               Res(App("Id", <<T>>), IF IsDeclared(e, "Id") THEN <<>> ELSE <<IdDecl>>, "WrapGenericIdentity") }
        ELSE {})
  \* inlining a reference to a RECURSIVE name is one unrolling of the recursion: the rule is tagged @recursive
  \* (known deviation "unrolledRecursionDigest": hash256 of an unrolling differs from the digest of the named type)
  \cup (IF T.t = "ref"
        THEN { Res(Lookup(e, T.n), <<>>, IF RecursiveName(e, T.n) THEN "InlineAlias@recursive" ELSE "InlineAlias") } ELSE {})

\* all single-position rewrites of T
RECURSIVE RW(_, _)
RW(T, e) ==
  Local(T, e) \cup
  CASE T.t = "arr"   -> { Res(Arr(x.ty), x.add, x.r) : x \in RW(T.e, e) }
    [] T.t = "set"   -> { Res(SetT(x.ty), x.add, x.r) : x \in RW(T.e, e) }
    [] T.t = "map"   -> { Res(MapT(T.kt, x.ty), x.add, x.r) : x \in RW(T.vt, e) }
    [] T.t = "tuple" -> UNION { { Res([T EXCEPT !.es[i] = x.ty], x.add, x.r) : x \in RW(T.es[i], e) } : i \in DOMAIN T.es }
                        \cup UNION { { Res([T EXCEPT !.r[i] = x.ty], x.add, x.r) : x \in RW(T.r[i], e) } : i \in DOMAIN T.r }
    [] T.t = "obj"   -> UNION { { Res([T EXCEPT !.ps[i].ty = x.ty], x.add, x.r) : x \in RW(T.ps[i].ty, e) } : i \in DOMAIN T.ps }
                        \cup UNION { { Res([T EXCEPT !.ix[i].vt = x.ty], x.add, x.r) : x \in RW(T.ix[i].vt, e) } : i \in DOMAIN T.ix }
    \* a rewrite applied anywhere inside a member of a union / intersection is tagged @member (alias boundaries
    \* there change the IR order and the compile-time merging of the members)
    [] T.t \in {"union", "inter"} ->
         UNION { { Res([T EXCEPT !.ms[i] = x.ty], x.add, IF EndsWith(x.r, "@member") THEN x.r ELSE x.r \o "@member")
                   : x \in RW(T.ms[i], e) } : i \in DOMAIN T.ms }
    [] OTHER -> {}

\* renaming of a declared name everywhere
RECURSIVE Ren(_, _, _)
Ren(T, a, b) ==
  CASE T.t = "ref"   -> IF T.n = a THEN Ref(b) ELSE T
    [] T.t = "app"   -> [T EXCEPT !.n = IF T.n = a THEN b ELSE T.n, !.args = [i \in DOMAIN T.args |-> Ren(T.args[i], a, b)]]
    [] T.t = "arr"   -> [T EXCEPT !.e = Ren(T.e, a, b)]
    [] T.t = "set"   -> [T EXCEPT !.e = Ren(T.e, a, b)]
    [] T.t = "map"   -> [T EXCEPT !.kt = Ren(T.kt, a, b), !.vt = Ren(T.vt, a, b)]
    [] T.t = "tuple" -> [T EXCEPT !.es = [i \in DOMAIN T.es |-> Ren(T.es[i], a, b)], !.r = [i \in DOMAIN T.r |-> Ren(T.r[i], a, b)]]
    [] T.t = "obj"   -> [T EXCEPT !.ps = [i \in DOMAIN T.ps |-> [T.ps[i] EXCEPT !.ty = Ren(T.ps[i].ty, a, b)]],
                                  !.ix = [i \in DOMAIN T.ix |-> [kt |-> Ren(T.ix[i].kt, a, b), vt |-> Ren(T.ix[i].vt, a, b)]]]
    [] T.t \in {"union", "inter"} -> [T EXCEPT !.ms = [i \in DOMAIN T.ms |-> Ren(T.ms[i], a, b)]]
    [] T.t = "deco"  -> [T EXCEPT !.a = Ren(T.a, a, b)]
    [] OTHER -> T

\* does the name a occur as a direct member of a union or intersection in T?
RECURSIVE DirectMember(_, _)
DirectMember(T, a) ==
  CASE T.t \in {"union", "inter"} -> (\E i \in DOMAIN T.ms : T.ms[i] = Ref(a)) \/ (\E i \in DOMAIN T.ms : DirectMember(T.ms[i], a))
    [] T.t \in {"arr", "set"} -> DirectMember(T.e, a)
    [] T.t = "map"   -> DirectMember(T.kt, a) \/ DirectMember(T.vt, a)
    [] T.t = "tuple" -> \E i \in DOMAIN (T.es \o T.r) : DirectMember((T.es \o T.r)[i], a)
    [] T.t = "obj"   -> (\E i \in DOMAIN T.ps : DirectMember(T.ps[i].ty, a)) \/ (\E i \in DOMAIN T.ix : DirectMember(T.ix[i].vt, a))
    [] T.t = "deco"  -> DirectMember(T.a, a)
    [] T.t = "app"   -> \E i \in DOMAIN T.args : DirectMember(T.args[i], a)
    [] OTHER -> FALSE

Init == /\ seed \in SeedSet
        /\ env = Seeds[seed].env /\ ty = Seeds[seed].ty
        /\ steps = 0 /\ rule = "seed" /\ rules = {}

AtPosition == \E x \in RW(ty, env) :
                /\ ty' = x.ty /\ env' = env \o x.add /\ rule' = x.r

InDecl == \E i \in DOMAIN env : \E x \in RW(env[i].ty, env) :
            /\ "params" \notin DOMAIN env[i]
            /\ (env[i].kind = "interface" => x.ty.t = "obj")       \* an interface body stays an object literal
            /\ env' = [env EXCEPT ![i].ty = x.ty] \o x.add /\ ty' = ty /\ rule' = x.r \o "@decl"

RenameAlias == \E i \in DOMAIN env :
                 /\ env[i].n # "Id"
                 \* a new name that sorts right after the old one, or after every other name
                 /\ \E b \in {env[i].n \o "x", "Zz" \o env[i].n} : LET a == env[i].n IN
                    /\ ~IsDeclared(env, b)
                    /\ env' = [j \in DOMAIN env |-> [env[j] EXCEPT !.n = IF @ = a THEN b ELSE @, !.ty = Ren(env[j].ty, a, b)]]
                    /\ ty' = Ren(ty, a, b)
                 \* reference members of a union / intersection are emitted in the order of their names: tagged @member
                 /\ rule' = IF DirectMember(ty, env[i].n) \/ (\E j \in DOMAIN env : DirectMember(env[j].ty, env[i].n))
                            THEN "RenameAlias@member" ELSE "RenameAlias"

PermuteDecls == Len(env) >= 2 /\ env' = Reverse(env) /\ ty' = ty /\ rule' = "PermuteDecls"

FlipDeclKind == \E i \in DOMAIN env :
                  /\ env[i].ty.t = "obj" /\ "params" \notin DOMAIN env[i]
                  /\ env' = [env EXCEPT ![i].kind = IF @ = "type" THEN "interface" ELSE "type"]
                  /\ ty' = ty /\ rule' = "InterfaceToObject"

Next == /\ steps < MaxSteps
        /\ steps' = steps + 1
        /\ seed' = seed
        /\ (AtPosition \/ InDecl \/ RenameAlias \/ PermuteDecls \/ FlipDeclKind)
        /\ rules' = rules \cup {rule'}

Spec == Init /\ [][Next]_vars

\* ------------------------------------------------------------------ my rules are meaning preserving (spec-internal)
SeedProbes == Probe(Seeds[seed].ty, Seeds[seed].env, 2, 40) \cup CommonPool
RulesPreserveMeaning ==
  \A v \in SeedProbes : /\ M3(v, ty, env, {}, FALSE) = M3(v, Seeds[seed].ty, Seeds[seed].env, {}, FALSE)
                        /\ M3(v, ty, env, {}, TRUE)  = M3(v, Seeds[seed].ty, Seeds[seed].env, {}, TRUE)
=============================================================================

--------------------------- MODULE TypeGen ---------------------------
(***************************************************************************)
(* Program generator as a state machine.  A state is a program             *)
(* [env, ty]: declarations plus a root type.  Every action is one type     *)
(* constructor of the supported TypeScript subset applied to the current   *)
(* root (other operands come from a fixed pool), or the introduction of an *)
(* alias / recursive declaration.  TLC's reachable states up to MaxDepth   *)
(* ARE the bounded program domain (breadth first = exhaustive per family;  *)
(* -simulate = random deep programs).                                      *)
(***************************************************************************)
EXTENDS Probe

CONSTANTS Family,     \* which leaf / pool / action sets are used
          MaxDepth    \* number of constructor applications

VARIABLES ty, env, depth, last
vars == <<ty, env, depth, last>>

\* ------------------------------------------------------------------ leaves and pools per family
\* (Twins and Closed: see Probe.tla - shared with Rewrite.tla)
RECURSIVE LeavesOf(_)
LeavesOf(fam) ==
  CASE fam = "prim"   -> {TString, TNumber, TBoolean, TNull, TUndef, Prim("void"), TAny, Prim("unknown"), TNever,
                          LS("a"), LS(""), LN("1"), LN("0"), LB(TRUE), LB(FALSE),
                          \* numeric literals that are not small integers
                          LN("0.5"), LN("3.14159"), LN("-1"), LN("1000000")}
    [] fam = "object" -> {TString, TNumber, TNull, LS("x"), LN("1"), Uni(<<TString, TNull>>),
                          \* a declared property whose type keeps more than the index signature's value type does
                          Obj(<<Prop("o", Obj(<<Prop("x", TNumber, FALSE), Prop("y", TNumber, FALSE)>>, <<>>), FALSE)>>,
                              <<Ix(TString, Obj(<<Prop("x", TNumber, FALSE)>>, <<>>))>>),
                          \* declared keys named like members of Object.prototype
                          Obj(<<Prop("toString", TString, FALSE), Prop("valueOf", TNumber, TRUE)>>, <<>>),
                          Obj(<<Prop("constructor", TString, FALSE), Prop("a", TString, FALSE)>>, <<>>),
                          Obj(<<Prop("__proto__", Obj(<<Prop("x", TNumber, FALSE)>>, <<>>), FALSE), Prop("a", TString, FALSE)>>, <<>>),
                          Obj(<<>>, <<Ix(TString, Obj(<<Prop("x", TNumber, FALSE)>>, <<>>))>>),
                          \* intersections of object literals whose members carry doc comments (alone; on object-valued properties two members share)
                          Inter(<<Deco("jsdocm", Obj(<<Prop("id", TString, FALSE)>>, <<>>)), Deco("jsdocm", Obj(<<Prop("name", TString, FALSE)>>, <<>>))>>),
                          Inter(<<Obj(<<Prop("id", TString, FALSE)>>, <<>>), Deco("jsdocm", Obj(<<Prop("name", TString, TRUE)>>, <<>>))>>),
                          Inter(<<Obj(<<Prop("n", Deco("jsdoc", Obj(<<Prop("x", TNumber, FALSE)>>, <<>>)), FALSE)>>, <<>>),
                                  Obj(<<Prop("n", Deco("jsdoc", Obj(<<Prop("y", TNumber, FALSE)>>, <<>>)), FALSE)>>, <<>>)>>),
                          \* the empty object type, alone and as the value type of an index signature (digest: where an object ends)
                          Obj(<<>>, <<>>), Obj(<<>>, <<Ix(TString, Obj(<<>>, <<>>))>>)}
    [] fam = "tuple"  -> {TString, TNumber, LS("x"), Uni(<<TString, TUndef>>)}
    [] fam = "union"  -> {TString, LS("a"), LS("b"), LN("1"), LB(TRUE), TNull,
                          Obj(<<Prop("k", LS("x"), FALSE), Prop("a", TString, FALSE)>>, <<>>),
                          Obj(<<Prop("k", LS("y"), FALSE), Prop("b", TNumber, FALSE)>>, <<>>),
                          \* nested objects under the same key in several members (intersection / union merging)
                          Obj(<<Prop("n", Obj(<<Prop("x", TString, FALSE)>>, <<>>), FALSE)>>, <<>>),
                          Obj(<<Prop("k", Uni(<<LS("x"), LS("w")>>), FALSE), Prop("a", TString, FALSE)>>, <<>>),
                          \* a union nested inside a member of a union (error paths relative to the union's position)
                          Uni(<<TString, Obj(<<Prop("b", Uni(<<TNumber, TBoolean>>), FALSE)>>, <<>>)>>)}
    [] fam = "tpl"    -> {Tpl(<<TpLit("x"), TpNum>>), Tpl(<<TpStr, TpLit("-"), TpStr>>), Tpl(<<TpBool>>),
                          Tpl(<<TpLit("a"), TpOne(<<"b", "bc">>)>>), Tpl(<<TpNum, TpLit("px")>>),
                          Tpl(<<TpLit("a."), TpStr>>), Tpl(<<TpStr>>), Tpl(<<TpOne(<<"a", "ab">>), TpLit("c")>>),
                          \* text that has to be escaped inside a template (the type is about the text, not about its spelling)
                          Tpl(<<TpLit("c:\\"), TpStr>>), Tpl(<<TpLit("a$" \o "{x}")>>), Tpl(<<TpLit("q`"), TpNum>>)}
    [] fam = "nonjson" -> {Prim("Date"), Prim("bigint"), TaT("Uint8Array"), TaT("Float64Array"), TString, TNumber, Prim("function"),
                           \* leaves kept by several members of a non-discriminated union (parse merges the members' results)
                           Uni(<<Obj(<<Prop("m", MapT(TString, TNumber), FALSE), Prop("a", TString, FALSE)>>, <<>>),
                                 Obj(<<Prop("m", MapT(TString, TNumber), FALSE)>>, <<>>)>>),
                           Uni(<<Obj(<<Prop("s", SetT(TString), FALSE), Prop("d", Prim("Date"), FALSE), Prop("a", TString, TRUE)>>, <<>>),
                                 Obj(<<Prop("s", SetT(TString), FALSE), Prop("d", Prim("Date"), FALSE), Prop("b", TNumber, TRUE)>>, <<>>)>>),
                           Uni(<<Obj(<<Prop("t", TaT("Uint8Array"), FALSE), Prop("g", Prim("bigint"), FALSE)>>, <<>>),
                                 Obj(<<Prop("t", TaT("Uint8Array"), FALSE), Prop("n", TNumber, TRUE)>>, <<>>)>>),
                           Uni(<<MapT(TString, TNumber), MapT(TString, TString)>>),
                           \* containers with several entries below the root, next to a sibling
                           Obj(<<Prop("m", MapT(TString, TNumber), FALSE), Prop("z", TNumber, FALSE)>>, <<>>),
                           Obj(<<Prop("s", SetT(TNumber), FALSE), Prop("z", TNumber, FALSE)>>, <<>>)}
    \* (the name "f1" is registered both as a string format and as a number format)
    [] fam = "format" -> {SFmt(<<"f1">>), SFmt(<<"f1", "f2">>), NFmt(<<"n1">>), NFmt(<<"n1", "n2">>), NFmt(<<"f1">>), TString}
    \* discriminated unions whose variants are named, are intersections of named types that both declare the tag, or carry
    \* an index signature (declarations: PresetEnv)
    [] fam = "disc"   -> {Uni(<<Inter(<<Ref("Base"), Ref("Cp")>>), Obj(<<Prop("kind", LS("sq"), FALSE), Prop("s", TNumber, FALSE)>>, <<>>)>>),
                          Uni(<<Inter(<<Ref("Cp"), Ref("Base")>>), Ref("Sq")>>),
                          Uni(<<Ref("Lb"), Obj(<<Prop("kind", LS("count"), FALSE), Prop("n", TNumber, FALSE)>>, <<>>)>>),
                          Uni(<<Obj(<<Prop("kind", LS("labels"), FALSE)>>, <<Ix(TString, TString)>>), Ref("Sq")>>),
                          Uni(<<Ref("Cp"), Ref("Sq")>>),
                          Uni(<<Obj(<<Prop("kind", LS("a-b"), FALSE), Prop("x", TNumber, FALSE)>>, <<>>),
                                Obj(<<Prop("kind", LS("a_b"), FALSE), Prop("y", TString, FALSE)>>, <<>>)>>),
                          \* discriminator values that are special as keys of a JavaScript object literal / table
                          Uni(<<Obj(<<Prop("kind", LS("__proto__"), FALSE), Prop("x", TNumber, FALSE)>>, <<>>),
                                Obj(<<Prop("kind", LS("sq"), FALSE), Prop("y", TString, FALSE)>>, <<>>)>>),
                          Uni(<<Obj(<<Prop("kind", LS("hasOwnProperty"), FALSE), Prop("x", TNumber, FALSE)>>, <<>>),
                                Obj(<<Prop("kind", Uni(<<LS("__proto__"), LS("valueOf")>>), FALSE), Prop("y", TString, TRUE)>>, <<>>)>>),
                          \* discriminator values shared by two variants (a | b next to b | c) beside a third variant
                          Uni(<<Obj(<<Prop("kind", Uni(<<LS("a"), LS("b")>>), FALSE), Prop("x", TString, FALSE)>>, <<>>),
                                Obj(<<Prop("kind", Uni(<<LS("b"), LS("c")>>), FALSE), Prop("x", TString, FALSE)>>, <<>>),
                                Obj(<<Prop("kind", LS("d"), FALSE), Prop("y", TString, FALSE)>>, <<>>)>>),
                          \* named types whose names are members of Object.prototype (tables keyed by type names), used once and twice
                          Obj(<<Prop("a", Ref("toString"), FALSE)>>, <<>>),
                          Obj(<<Prop("a", Ref("__proto__"), FALSE), Prop("b", Arr(Ref("__proto__")), TRUE)>>, <<>>),
                          \* an object intersected with a NAMED union of objects (not distributed by the compiler)
                          Inter(<<Obj(<<Prop("a", TString, FALSE)>>, <<>>), Ref("Ush")>>), Inter(<<Ref("Ush"), Obj(<<Prop("a", TString, TRUE)>>, <<>>)>>),
                          \* three discriminator values that sanitize to one name part
                          Uni(<<Obj(<<Prop("kind", LS("u-c"), FALSE), Prop("x", TNumber, FALSE)>>, <<>>),
                                Obj(<<Prop("kind", LS("u_c"), FALSE), Prop("y", TString, FALSE)>>, <<>>),
                                Obj(<<Prop("kind", LS("u.c"), FALSE), Prop("z", TNull, FALSE)>>, <<>>)>>),
                          \* two levels of tags: several variants share a value of the first discriminator
                          Uni(<<Obj(<<Prop("kind", LS("text"), FALSE), Prop("format", LS("plain"), FALSE), Prop("a", TString, FALSE)>>, <<>>),
                                Obj(<<Prop("kind", LS("text"), FALSE), Prop("format", LS("html"), FALSE), Prop("b", TNumber, FALSE)>>, <<>>),
                                Obj(<<Prop("kind", LS("img"), FALSE), Prop("c", TString, FALSE)>>, <<>>)>>),
                          \* two unions whose 32-bit hash() is equal (the property names "Aa" and "BB" have one string hash): the names of
                          \* their variants' definitions in a printing context must still be different
                          Obj(<<Prop("u1", Uni(<<Obj(<<Prop("kind", LS("x"), FALSE), Prop("Aa", TString, FALSE)>>, <<>>),
                                                 Obj(<<Prop("kind", LS("y"), FALSE), Prop("b", TNumber, FALSE)>>, <<>>)>>), FALSE),
                                Prop("u2", Uni(<<Obj(<<Prop("kind", LS("x"), FALSE), Prop("BB", TString, FALSE)>>, <<>>),
                                                 Obj(<<Prop("kind", LS("y"), FALSE), Prop("b", TNumber, FALSE)>>, <<>>)>>), FALSE)>>, <<>>),
                          \* the same named type at the same position of two members of a union that is tried member by member, in both
                          \* orders; in both members of an intersection of unions; next to an intersection with itself: whatever the
                          \* runtime remembers about (named type, value) while one member fails must not leak into the next member
                          Uni(<<Obj(<<Prop("at", Ref("Pt"), FALSE), Prop("radius", TNumber, FALSE)>>, <<>>),
                                Obj(<<Prop("at", Ref("Pt"), FALSE), Prop("label", TString, FALSE)>>, <<>>)>>),
                          Uni(<<Obj(<<Prop("at", Ref("Pt"), FALSE), Prop("zlabel", TString, FALSE)>>, <<>>),
                                Obj(<<Prop("at", Ref("Pt"), FALSE), Prop("aradius", TNumber, FALSE)>>, <<>>)>>),
                          Inter(<<Uni(<<Ref("Ct"), Ref("Dg")>>), Uni(<<Ref("Ct"), Obj(<<Prop("hoot", TString, FALSE)>>, <<>>)>>)>>),
                          Inter(<<Uni(<<Ref("Dg"), Ref("Ct")>>), Uni(<<Obj(<<Prop("hoot", TString, FALSE)>>, <<>>), Ref("Dg")>>)>>),
                          Uni(<<Ref("Pt"), Inter(<<Ref("Pt"), Obj(<<Prop("name", TString, FALSE)>>, <<>>)>>)>>),
                          Ref("valueOf"), Obj(<<Prop("p", Ref("valueOf"), FALSE), Prop("q", Ref("valueOf"), TRUE)>>, <<>>),
                          Obj(<<Prop("first", Uni(<<Ref("Ct"), Ref("Dg")>>), FALSE), Prop("second", Uni(<<Ref("Dg"), Ref("Ct")>>), FALSE)>>, <<>>),
                          \* named intersection members that declare the same property with types differing only in depth
                          Inter(<<Ref("Ma"), Ref("Mb")>>), Inter(<<Ref("Mb"), Ref("Ma")>>),
                          \* (members are emitted in the order of their names: here the wider declaration comes first)
                          Inter(<<Ref("Ka"), Ref("Kb")>>)}
    [] fam = "describe" -> {Obj(<<Prop("my-key", TString, FALSE), Prop("b", TNumber, TRUE)>>, <<>>),
                            Obj(<<Prop("a b", TString, TRUE)>>, <<>>),
                            Obj(<<Prop("0", TString, FALSE), Prop("$x", TNumber, FALSE)>>, <<>>),
                            Obj(<<Prop("a", TString, FALSE)>>, <<Ix(TString, Uni(<<TString, TNumber>>))>>),
                            \* a template-literal index key next to a named member; keys that need escaping when quoted
                            Obj(<<Prop("unit", TString, FALSE)>>, <<Ix(Tpl(<<TpLit("--"), TpStr>>), TNumber)>>),
                            Obj(<<Prop("C:\\temp", TString, FALSE), Prop("say \"hi\"", TNumber, TRUE)>>, <<>>),
                            Tup(<<TString>>, <<TNumber>>), Prim("bigint"), Prim("Date"), MapT(TString, TNumber), SetT(TString),
                            Uni(<<LS("a"), LS("b")>>), Prim("void"), TUndef, Prim("object"), TNever}
    [] fam = "twin"   -> LET src == {t \in UNION {LeavesOf(f) : f \in {"prim", "object", "tuple", "union", "tpl", "nonjson", "format"}} : Closed(t)}
                         IN UNION { UNION { { Obj(<<Prop("a", t, FALSE), Prop("b", x, FALSE)>>, <<>>), Obj(<<Prop("a", x, FALSE), Prop("b", t, FALSE)>>, <<>>) }
                                            : x \in Twins(t) } : t \in src }
    [] OTHER -> {TString}

PoolOf(fam) ==
  CASE fam = "prim"   -> {TString, TNumber, TNull, LS("a"), LN("1")}
    [] fam = "object" -> {TString, TNumber, Obj(<<Prop("b", TNumber, FALSE)>>, <<>>), Obj(<<Prop("a", TString, TRUE)>>, <<>>), Obj(<<>>, <<>>)}
    [] fam = "tuple"  -> {TString, TNumber}
    [] fam = "union"  -> {TString, LS("b"), TNull, Obj(<<Prop("k", LS("z"), FALSE)>>, <<>>),
                          Obj(<<Prop("k", LS("constructor"), FALSE), Prop("c", TString, TRUE)>>, <<>>),
                          Obj(<<Prop("n", Obj(<<Prop("y", TNumber, FALSE)>>, <<>>), FALSE)>>, <<>>),
                          Obj(<<Prop("n", Obj(<<Prop("x", TString, FALSE), Prop("y", TNumber, TRUE)>>, <<>>), FALSE), Prop("a", TString, TRUE)>>, <<>>)}
    [] fam = "tpl"    -> {TString, LS("x1")}
    [] fam = "nonjson" -> {TString, TNumber, Prim("Date")}
    [] fam = "format" -> {TString, TNumber}
    [] fam = "disc"   -> {TNull, Obj(<<Prop("kind", LS("tri"), FALSE), Prop("id", TString, TRUE)>>, <<>>), Ref("Sq")}
    [] fam = "describe" -> {TString, Obj(<<Prop("my-key", TNumber, FALSE)>>, <<>>)}
    [] OTHER -> {TString}

Unary ==
  CASE Family = "prim"   -> {"arr", "objReq", "objOpt", "alias"}
    [] Family = "object" -> {"objReq", "objOpt", "index", "arr", "alias", "rec", "iface"}
    [] Family = "tuple"  -> {"tup1", "tupRest0", "arr", "alias", "recTuple", "labels"}
    [] Family = "union"  -> {"arr", "objReq", "alias"}
    [] Family = "tpl"    -> {"arr", "objReq", "index", "indexKey", "indexKeyAny"}
    [] Family = "nonjson" -> {"arr", "objReq", "objOpt", "set", "alias"}
    [] Family = "format" -> {"arr", "objReq", "index"}
    [] Family = "disc"   -> {"arr", "objReq", "objOpt"}
    [] Family = "describe" -> {"arr", "objReq", "objOpt", "alias", "rec", "shared", "recTuple", "index"}
    [] OTHER -> {}

Binary ==
  CASE Family = "prim"   -> {"union", "inter"}
    [] Family = "object" -> {"obj2", "obj2opt", "union", "inter", "indexMixed", "indexOver"}
    [] Family = "tuple"  -> {"tup2a", "tup2b", "tupRest1", "union"}
    [] Family = "union"  -> {"union", "inter"}
    [] Family = "tpl"    -> {"union"}
    [] Family = "nonjson" -> {"map", "mapK", "union", "obj2"}
    [] Family = "format" -> {"union", "obj2"}
    [] Family = "disc"   -> {"union"}
    [] Family = "describe" -> {"union", "obj2", "inter"}
    [] OTHER -> {}

PresetEnv ==
  IF Family = "disc" THEN <<
    [n |-> "Base", kind |-> "type", ty |-> Obj(<<Prop("kind", Uni(<<LS("circle"), LS("ellipse")>>), FALSE), Prop("id", TString, FALSE)>>, <<>>)],
    [n |-> "Cp",   kind |-> "type", ty |-> Obj(<<Prop("kind", LS("circle"), FALSE), Prop("r", TNumber, FALSE)>>, <<>>)],
    [n |-> "Sq",   kind |-> "type", ty |-> Obj(<<Prop("kind", LS("sq"), FALSE), Prop("s", TNumber, FALSE)>>, <<>>)],
    [n |-> "Lb",   kind |-> "type", ty |-> Obj(<<Prop("kind", LS("labels"), FALSE)>>, <<Ix(TString, TString)>>)],
    [n |-> "Ma",   kind |-> "type", ty |-> Obj(<<Prop("id", TString, FALSE),
                                                 Prop("meta", Obj(<<Prop("kind", Uni(<<LS("p"), LS("q")>>), FALSE)>>, <<>>), FALSE)>>, <<>>)],
    [n |-> "Mb",   kind |-> "type", ty |-> Obj(<<Prop("meta", Obj(<<Prop("kind", TString, FALSE)>>, <<>>), FALSE), Prop("z", TNumber, TRUE)>>, <<>>)],
    [n |-> "Ka",   kind |-> "type", ty |-> Obj(<<Prop("meta", Obj(<<Prop("kind", TString, FALSE)>>, <<>>), FALSE), Prop("w", TNumber, TRUE)>>, <<>>)],
    [n |-> "toString",  kind |-> "type", ty |-> Obj(<<Prop("x", TString, FALSE)>>, <<>>)],
    [n |-> "__proto__", kind |-> "type", ty |-> Obj(<<Prop("x", TString, FALSE)>>, <<>>)],
    [n |-> "Ush",  kind |-> "type", ty |-> Uni(<<Obj(<<Prop("b", TString, FALSE)>>, <<>>), Obj(<<Prop("c", TString, FALSE)>>, <<>>)>>)],
    [n |-> "Kb",   kind |-> "type", ty |-> Obj(<<Prop("id", TString, FALSE),
                                                 Prop("meta", Obj(<<Prop("kind", Uni(<<LS("p"), LS("q")>>), FALSE)>>, <<>>), FALSE)>>, <<>>)],
    \* named types that several members of one (not discriminated) union / intersection mention at the same position
    [n |-> "Pt",   kind |-> "type", ty |-> Obj(<<Prop("x", TNumber, FALSE), Prop("y", TNumber, FALSE)>>, <<>>)],
    [n |-> "Ct",   kind |-> "type", ty |-> Obj(<<Prop("meow", TString, FALSE)>>, <<>>)],
    [n |-> "Dg",   kind |-> "type", ty |-> Obj(<<Prop("bark", TString, FALSE), Prop("legs", TNumber, TRUE)>>, <<>>)],
    \* a recursive type called like a member of Object.prototype (tables keyed by type names while a traversal is under way)
    [n |-> "valueOf", kind |-> "type", ty |-> Obj(<<Prop("v", TString, FALSE), Prop("next", Ref("valueOf"), TRUE)>>, <<>>)] >>
  ELSE <<>>

\* in the describe family the second declaration takes the name describe() gives the root alias (Codec + parser key)
FreshName == IF env = <<>> THEN "A" ELSE IF Len(env) = 1 THEN (IF Family = "describe" THEN "CodecT" ELSE "B") ELSE "C"

ApplyUnary(a, t) ==
  CASE a = "arr"      -> Arr(t)
    [] a = "objReq"   -> Obj(<<Prop("a", t, FALSE)>>, <<>>)
    [] a = "objOpt"   -> Obj(<<Prop("a", t, TRUE)>>, <<>>)
    [] a = "index"    -> Obj(<<>>, <<Ix(TString, t)>>)
    [] a = "indexKey" -> Obj(<<>>, <<Ix(t, TNumber)>>)
    [] a = "indexKeyAny" -> Obj(<<>>, <<Ix(t, Prim("unknown"))>>)
    [] a = "tup1"     -> Tup(<<t>>, <<>>)
    [] a = "labels"   -> Deco("labels", t)            \* [e0: T0, ...rest: Array<R>] - the same type with element names
    [] a = "tupRest0" -> Tup(<<>>, <<t>>)
    [] a = "set"      -> SetT(t)

ApplyBinary(a, t, x) ==
  CASE a = "union"      -> Uni(<<t, x>>)
    [] a = "inter"      -> Inter(<<t, x>>)
    [] a = "obj2"       -> Obj(<<Prop("a", t, FALSE), Prop("b", x, FALSE)>>, <<>>)
    [] a = "obj2opt"    -> Obj(<<Prop("a", t, TRUE), Prop("b", x, FALSE)>>, <<>>)
    [] a = "indexMixed" -> Obj(<<Prop("a", x, FALSE)>>, <<Ix(TString, Uni(<<x, t>>))>>)
    [] a = "indexOver"  -> Obj(<<Prop("a", t, FALSE)>>, <<Ix(TString, x)>>)
    [] a = "tup2a"      -> Tup(<<t, x>>, <<>>)
    [] a = "tup2b"      -> Tup(<<x, t>>, <<>>)
    [] a = "tupRest1"   -> Tup(<<x>>, <<t>>)
    [] a = "map"        -> MapT(x, t)
    [] a = "mapK"       -> MapT(t, x)

Init == /\ ty \in LeavesOf(Family)
        /\ env = PresetEnv
        /\ depth = 0
        /\ last = "leaf"

\* TypeScript admits string, number, template literal patterns and unions of these as index signature key types - not
\* literal types, objects, ...
RECURSIVE IndexKeyOK(_)
IndexKeyOK(t) == \/ (t.t = "tpl" /\ \E i \in DOMAIN t.parts : t.parts[i].p \in {"str", "num", "bool"})   \* a pattern, not a literal
                 \/ (t.t = "prim" /\ t.p \in {"string", "number"})
                 \/ (t.t = "union" /\ \A i \in DOMAIN t.ms : IndexKeyOK(t.ms[i]))
Wrap(a) == /\ a \in Unary \ {"alias", "rec", "recTuple", "iface", "shared"}
           /\ (a \in {"indexKey", "indexKeyAny"} => IndexKeyOK(ty))
           /\ (a = "labels" => ty.t = "tuple")
           /\ ty' = ApplyUnary(a, ty)
           /\ UNCHANGED env

Combine(a, x) == /\ a \in Binary
                 /\ ty' = ApplyBinary(a, ty, x)
                 /\ UNCHANGED env

\* type A = <ty>; root becomes a reference to it (alias boundary; named types are emitted as RefRuntype)
Alias == /\ "alias" \in Unary
         /\ Len(env) < 2
         /\ env' = Append(env, [n |-> FreshName, ty |-> ty, kind |-> "type"])
         /\ ty' = Ref(FreshName)

\* interface A { ... } for object roots
Iface == /\ "iface" \in Unary
         /\ Len(env) < 2
         /\ ty.t = "obj"
         /\ env' = Append(env, [n |-> FreshName, ty |-> ty, kind |-> "interface"])
         /\ ty' = Ref(FreshName)

\* type A = { v: <ty>, next?: A }   (guarded recursion)
Rec == /\ "rec" \in Unary
       /\ Len(env) < 2
       /\ LET n == FreshName IN
          /\ env' = Append(env, [n |-> n, kind |-> "type",
                                 ty |-> Obj(<<Prop("v", ty, FALSE), Prop("next", Ref(n), TRUE)>>, <<>>)])
          /\ ty' = Ref(n)

\* type A = [<ty>, ...A[]]
RecTuple == /\ "recTuple" \in Unary
            /\ Len(env) < 2
            /\ LET n == FreshName IN
               /\ env' = Append(env, [n |-> n, kind |-> "type", ty |-> Tup(<<ty>>, <<Ref(n)>>)])
               /\ ty' = Ref(n)

\* type A = <ty>; root = { x: A, y: A }  (a named type referenced twice: describe() must declare it once)
Shared == /\ "shared" \in Unary
          /\ Len(env) < 2
          /\ LET n == FreshName IN
             /\ env' = Append(env, [n |-> n, kind |-> "type", ty |-> ty])
             /\ ty' = Obj(<<Prop("x", Ref(n), FALSE), Prop("y", Arr(Ref(n)), TRUE)>>, <<>>)

Next == /\ depth < MaxDepth
        /\ depth' = depth + 1
        /\ \/ \E a \in Unary : Wrap(a) /\ last' = a
           \/ \E a \in Binary : \E x \in PoolOf(Family) : Combine(a, x) /\ last' = a
           \/ Alias /\ last' = "alias"
           \/ Iface /\ last' = "iface"
           \/ Rec /\ last' = "rec"
           \/ RecTuple /\ last' = "recTuple"
           \/ Shared /\ last' = "shared"

Spec == Init /\ [][Next]_vars

\* ------------------------------------------------------------------ the oracle travels with the state
ProbeCap == 40
Fuel == 2
ProbesOf == SetToSeq(Probe(ty, env, Fuel, ProbeCap))

CaseRecord ==
  LET ps == ProbesOf IN
  [ fam |-> Family, depth |-> depth, last |-> last, ty |-> ty, env |-> env,
    probes |-> [i \in DOMAIN ps |-> [ v |-> ps[i],
                                      e |-> M3(ps[i], ty, env, {}, FALSE),
                                      es |-> M3(ps[i], ty, env, {}, TRUE) ]] ]

\* spec-internal laws every correct reference must satisfy on the generated universe
OracleLaws ==
  \A v \in Probe(ty, env, Fuel, ProbeCap) :
     LET l == M3(v, ty, env, {}, FALSE)  s == M3(v, ty, env, {}, TRUE) IN
     /\ (s = "T" => l \in {"T", "X"})            \* strict membership implies default membership
     /\ (l = "F" => s \in {"F", "X"})
=============================================================================

--------------------------- MODULE TypeGenU ---------------------------
(***************************************************************************)
(* Program generator for the type-OPERATOR part of the supported subset    *)
(* (property C01): keyof, indexed access, mapped and conditional types,    *)
(* Partial / Required / Pick / Omit / Record / Exclude / Extract /         *)
(* NonNullable / Readonly, enums, typeof of constants, interface extends,  *)
(* generic instantiation.  A state is a surface type over a fixed prelude  *)
(* of declarations; its meaning is M3 on the type-level evaluation         *)
(* TsEval!Ev(ty) (independent of beff's implementation).                   *)
(***************************************************************************)
EXTENDS TsEval, Probe

CONSTANTS MaxDepth

OO(ps) == Obj(ps, <<>>)
TyO == OO(<<Prop("a", TString, FALSE), Prop("b", TNumber, TRUE), Prop("c", Uni(<<LS("x"), TNull>>), FALSE)>>)
TyP == OO(<<Prop("a", TString, FALSE), Prop("d", TBoolean, FALSE)>>)
Env == <<
  [n |-> "O",  kind |-> "type", ty |-> TyO],
  [n |-> "P",  kind |-> "type", ty |-> TyP],
  [n |-> "R1", kind |-> "type", ty |-> OO(<<Prop("v", TNumber, FALSE), Prop("next", Ref("R1"), TRUE)>>)],
  [n |-> "I1", kind |-> "interface", ty |-> OO(<<Prop("i", TNumber, FALSE)>>), ext |-> <<>>],
  [n |-> "I2", kind |-> "interface", ty |-> OO(<<Prop("j", TString, TRUE)>>), ext |-> <<Ref("I1")>>],
  [n |-> "E",  kind |-> "enum", ms |-> <<[name |-> "P", v |-> VStr("p"), init |-> TRUE], [name |-> "Q", v |-> VStr("q"), init |-> TRUE]>>,
               ty |-> Uni(<<LS("p"), LS("q")>>)],
  [n |-> "F",  kind |-> "enum", ms |-> <<[name |-> "Z", v |-> VNum("0"), init |-> FALSE], [name |-> "W", v |-> VNum("1"), init |-> FALSE]>>,
               ty |-> Uni(<<LN("0"), LN("1")>>)],
  [n |-> "c1", kind |-> "const", expr |-> "{ k: \"v\", n: 1 } as const", cty |-> OO(<<Prop("k", LS("v"), FALSE), Prop("n", LN("1"), FALSE)>>),
               ty |-> OO(<<Prop("k", LS("v"), FALSE), Prop("n", LN("1"), FALSE)>>)],
  [n |-> "c2", kind |-> "const", expr |-> "{ k: \"v\", n: 1 }", cty |-> OO(<<Prop("k", TString, FALSE), Prop("n", TNumber, FALSE)>>),
               ty |-> OO(<<Prop("k", TString, FALSE), Prop("n", TNumber, FALSE)>>)],
  [n |-> "K",  kind |-> "type", ty |-> Uni(<<LS("a"), LS("b")>>)],
  [n |-> "KU", kind |-> "type", ty |-> Uni(<<LS("a"), LS("zz")>>)],
  [n |-> "G",  kind |-> "type", params |-> <<"X">>, ty |-> OO(<<Prop("x", Param("X"), FALSE), Prop("y", Arr(Param("X")), TRUE)>>)],
  \* lexical scoping of type parameters: the global alias X (number) is what InX mentions, whatever W is applied to
  [n |-> "X",   kind |-> "type", ty |-> TNumber],
  [n |-> "InX", kind |-> "type", ty |-> OO(<<Prop("x", Ref("X"), FALSE)>>)],
  [n |-> "W",   kind |-> "type", params |-> <<"X">>, ty |-> OO(<<Prop("i", Ref("InX"), FALSE), Prop("v", Param("X"), FALSE)>>)],
  [n |-> "InI", kind |-> "interface", ty |-> OO(<<Prop("x", Ref("X"), FALSE), Prop("xs", Arr(Ref("X")), TRUE)>>), ext |-> <<>>],
  [n |-> "W2",  kind |-> "type", params |-> <<"X">>, ty |-> OO(<<Prop("c", Ref("InI"), FALSE), Prop("d", Param("X"), FALSE)>>)],
  \* a declared name that looks like the name generated for an instantiation (G<string>)
  [n |-> "G_string", kind |-> "type", ty |-> OO(<<Prop("v", TNumber, FALSE)>>)],
  [n |-> "Row", kind |-> "type", ty |-> Tup(<<TString, TNumber>>, <<TBoolean>>)],
  \* binders: the key variable of a mapped type shadows a type parameter of the same name; generic bodies that use type operators
  [n |-> "Tagged", kind |-> "type", params |-> <<"K">>,
     ty |-> OO(<<Prop("kind", Param("K"), FALSE), Prop("cells", MappedK("K", Uni(<<LS("x"), LS("y")>>), Param("K"), FALSE), FALSE)>>)],
  [n |-> "Plain", kind |-> "type", params |-> <<"V">>,
     ty |-> OO(<<Prop("kind", Param("V"), FALSE), Prop("cells", MappedK("K", Uni(<<LS("x"), LS("y")>>), Param("K"), FALSE), FALSE)>>)],
  [n |-> "Nul", kind |-> "type", params |-> <<"X">>, ty |-> MappedK("K", KeyOf(Param("X")), Uni(<<Index(Param("X"), Param("K")), TNull>>), FALSE)],
  [n |-> "PG",  kind |-> "type", params |-> <<"X">>, ty |-> Util("Partial", <<OO(<<Prop("a", Param("X"), FALSE), Prop("b", Arr(Param("X")), FALSE)>>)>>)],
  [n |-> "CG",  kind |-> "type", params |-> <<"X">>, ty |-> Cond(Param("X"), TString, LS("s"), LS("o"))],
  \* a tagged tree: a member that is recursive through an array, next to a leaf (operands of Exclude / Extract)
  [n |-> "Lf",  kind |-> "type", ty |-> OO(<<Prop("kind", LS("leaf"), FALSE), Prop("v", TNumber, FALSE)>>)],
  [n |-> "Br",  kind |-> "type", ty |-> OO(<<Prop("kind", LS("branch"), FALSE), Prop("children", Arr(Uni(<<Ref("Lf"), Ref("Br")>>)), FALSE)>>)],
  \* a generic interface whose extends clause mentions its type parameter (named like the declared alias X = number)
  [n |-> "BaseG", kind |-> "interface", params |-> <<"X">>, ty |-> OO(<<Prop("v", Param("X"), FALSE)>>), ext |-> <<>>],
  [n |-> "BoxG",  kind |-> "interface", params |-> <<"X">>, ty |-> OO(<<Prop("label", TString, FALSE)>>), ext |-> <<App("BaseG", <<Param("X")>>)>>],
  [n |-> "Two", kind |-> "type", params |-> <<"A", "B">>, ty |-> OO(<<Prop("l", Param("A"), FALSE), Prop("r", Param("B"), FALSE), Prop("n", App("G", <<Param("B")>>), TRUE)>>)]
>>
RO == Ref("O")
RP == Ref("P")
RK == Ref("K")

ULeaves == <<
  Util("Partial", <<RO>>), Util("Required", <<RO>>), Util("Readonly", <<RO>>),
  Util("Pick", <<RO, Uni(<<LS("a"), LS("b")>>)>>), Util("Pick", <<RO, RK>>), Util("Pick", <<RO, LS("c")>>),
  Util("Omit", <<RO, LS("a")>>), Util("Omit", <<RO, Ref("KU")>>), Util("Omit", <<RO, RK>>),
  Util("Record", <<RK, TNumber>>), Util("Record", <<TString, RO>>), Util("Record", <<LS("a"), Uni(<<TString, TNull>>)>>),
  Util("Record", <<EnumRef("E"), TNumber>>),
  KeyOf(RO), KeyOf(Uni(<<RO, RP>>)), KeyOf(Inter(<<RO, RP>>)), KeyOf(Ref("R1")), KeyOf(TypeOf("c1")),
  Index(RO, LS("a")), Index(RO, LS("b")), Index(RO, LS("c")), Index(RO, RK), Index(Uni(<<RO, RP>>), LS("a")), Index(Ref("R1"), LS("next")),
  Index(TypeOf("c1"), LS("k")), Index(Util("Record", <<TString, TNumber>>), TString),
  Util("Exclude", <<Uni(<<LS("a"), LS("b"), LN("1"), TNull>>), TString>>), Util("Exclude", <<Uni(<<RK, TNumber>>), LS("a")>>),
  Util("Exclude", <<Uni(<<LS("a"), LS("b")>>), Uni(<<LS("b"), LS("c")>>)>>), Util("Exclude", <<Uni(<<TString, TNumber, TNull>>), Uni(<<TNumber, TNull>>)>>),
  Util("Extract", <<Uni(<<LS("a"), LN("1"), TNull>>), Uni(<<TString, TNull>>)>>),
  \* a template literal type that passes through the semantic engine (Exclude / Extract keep it)
  Util("Exclude", <<Uni(<<Tpl(<<TpLit("a"), TpStr>>), TNumber>>), TNumber>>), Util("Extract", <<Uni(<<Tpl(<<TpLit("x"), TpNum>>), TNull>>), TString>>),
  \* Partial of an object that has declared properties next to an index signature
  Util("Partial", <<Obj(<<Prop("a", TString, FALSE)>>, <<Ix(TString, TString)>>)>>),
  Util("NonNullable", <<Uni(<<TString, TNull, TUndef>>)>>),
  Cond(RO, RP, LN("1"), LN("2")), Cond(RO, OO(<<Prop("a", TString, FALSE)>>), LN("1"), LN("2")), Cond(LS("a"), RK, RO, RP),
  Cond(TString, RK, LN("1"), LN("2")), Cond(Arr(LN("1")), Arr(TNumber), LS("yes"), LS("no")),
  Mapped(RK, TNumber, FALSE), Mapped(RK, RO, TRUE), Mapped(TString, TNumber, FALSE), Mapped(KeyOf(RO), TBoolean, FALSE),
  EnumRef("E"), EnumRef("F"), EnumMember("E", "P"), EnumMember("F", "W"), TypeOf("c1"), TypeOf("c2"),
  Ref("I2"), App("G", <<TString>>), App("G", <<RO>>), App("G", <<RK>>), App("G", <<App("G", <<TNumber>>)>>),
  Util("Partial", <<App("G", <<TNumber>>)>>), Util("Required", <<Util("Partial", <<RO>>)>>), Util("Partial", <<Ref("R1")>>),
  Util("Pick", <<Ref("R1"), LS("next")>>), Util("Partial", <<Ref("I2")>>), Util("Required", <<Ref("I2")>>),
  Util("Omit", <<Inter(<<RO, RP>>), LS("a")>>), Util("Partial", <<Uni(<<RO, RP>>)>>),
  \* indexed access into tuples with a rest element
  Index(Ref("Row"), LN("0")), Index(Ref("Row"), LN("1")), Index(Ref("Row"), LN("2")), Index(Ref("Row"), LN("5")),
  Index(Ref("Row"), Uni(<<LN("1"), LN("2")>>)), Index(Ref("Row"), TNumber), OO(<<Prop("flag", Index(Ref("Row"), LN("2")), FALSE)>>),
  Index(Tup(<<TString, TNumber>>, <<>>), LN("1")),
  App("W", <<TString>>), OO(<<Prop("w", App("W", <<TString>>), FALSE), Prop("i", Ref("InX"), FALSE)>>),
  App("W2", <<TString>>), OO(<<Prop("w", App("W2", <<TBoolean>>), FALSE), Prop("c", Ref("InI"), FALSE)>>),
  OO(<<Prop("i", Ref("InX"), FALSE), Prop("w", App("W", <<TBoolean>>), FALSE)>>),
  OO(<<Prop("g", App("G", <<TString>>), FALSE), Prop("u", Ref("G_string"), FALSE)>>),
  \* mapped types whose value mentions the key variable; nested binders with the same and with different names
  MappedK("K", RK, Param("K"), FALSE), MappedK("K", TString, Param("K"), FALSE),
  MappedK("K", Uni(<<LS("r1"), LS("r2")>>), MappedK("K", Uni(<<LS("c1"), LS("c2")>>), Param("K"), FALSE), FALSE),
  MappedK("K", RK, MappedK("J", Uni(<<LS("c1"), LS("c2")>>), OO(<<Prop("k", Param("K"), FALSE), Prop("j", Param("J"), FALSE)>>), FALSE), FALSE),
  MappedK("K", KeyOf(RP), Index(RP, Param("K")), FALSE), MappedK("K", KeyOf(RO), Arr(Index(RO, Param("K"))), TRUE),
  App("Tagged", <<LS("point")>>), App("Plain", <<LS("point")>>), App("Nul", <<RP>>), App("Nul", <<RO>>), App("PG", <<TNumber>>),
  App("CG", <<LS("a")>>), App("CG", <<TNumber>>), App("G", <<MappedK("K", RK, Param("K"), FALSE)>>),
  App("Two", <<TString, TNumber>>), App("Two", <<TNumber, TString>>), App("Two", <<App("Two", <<LS("a"), LS("b")>>), TNull>>),
  \* Exclude / Extract over a union with a recursive member, by a type that covers that member through another atom
  Util("Exclude", <<Uni(<<Ref("Lf"), Ref("Br")>>), OO(<<Prop("kind", LS("branch"), FALSE)>>)>>),
  Util("Exclude", <<Uni(<<Ref("Lf"), Ref("Br")>>), Ref("Br")>>),
  Util("Extract", <<Uni(<<Ref("Lf"), Ref("Br"), TString>>), OO(<<Prop("kind", LS("branch"), FALSE)>>)>>),
  Util("Exclude", <<Uni(<<Ref("R1"), TNumber, TString>>), TString>>),
  \* the explicit optional modifier; a homomorphic mapped type in a generic; instances of a generic interface with an extends clause
  MappedPlus(RK, TNumber), MappedPlus(KeyOf(RP), TBoolean),
  App("BoxG", <<TString>>), OO(<<Prop("b", App("BoxG", <<TBoolean>>), FALSE), Prop("x", Ref("X"), FALSE)>>),
  \* indexed access by a literal key that only the index signature covers (alone, and in a union with an object that declares it)
  Index(Obj(<<Prop("a", TString, FALSE)>>, <<Ix(TString, Uni(<<TString, TNumber>>))>>), LS("b")),
  Index(Uni(<<Obj(<<Prop("a", LN("1"), FALSE)>>, <<Ix(TString, TNumber)>>), OO(<<Prop("z", LN("2"), FALSE), Prop("a", LS("s"), FALSE)>>)>>), Uni(<<LS("a"), LS("z")>>)),
  \* two sub-validators of one program that differ in one attribute only (optional index value; in both orders of emission)
  OO(<<Prop("a", Util("Record", <<TString, TNumber>>), FALSE), Prop("b", Util("Partial", <<Util("Record", <<TString, TNumber>>)>>), FALSE)>>),
  OO(<<Prop("a", Util("Partial", <<Util("Record", <<TString, TNumber>>)>>), FALSE), Prop("b", Util("Record", <<TString, TNumber>>), FALSE)>>),
  OO(<<Prop("a", Mapped(TString, RK, TRUE), FALSE), Prop("b", Mapped(TString, RK, FALSE), FALSE)>>),
  \* computed object types whose surviving member declares properties / an index signature of type unknown
  Util("Exclude", <<Uni(<<OO(<<Prop("kind", LS("m"), FALSE), Prop("name", TString, FALSE), Prop("meta", Prim("unknown"), TRUE)>>),
                          OO(<<Prop("kind", LS("c"), FALSE), Prop("r", TNumber, FALSE)>>)>>),
                    OO(<<Prop("kind", LS("c"), FALSE)>>)>>),
  Util("Exclude", <<Uni(<<Obj(<<Prop("kind", LS("m"), FALSE)>>, <<Ix(TString, Prim("unknown"))>>), OO(<<Prop("kind", LS("c"), FALSE), Prop("r", TNumber, FALSE)>>)>>),
                    OO(<<Prop("kind", LS("c"), FALSE)>>)>>),
  Index(OO(<<Prop("body", OO(<<Prop("id", TString, FALSE), Prop("extra", TAny, FALSE)>>), FALSE)>>), LS("body")),
  Util("Extract", <<Uni(<<OO(<<Prop("kind", LS("m"), FALSE), Prop("meta", Prim("unknown"), FALSE)>>), TString>>), OO(<<Prop("kind", TString, FALSE)>>)>>)
>>

VARIABLES ty, depth, last
uvars == <<ty, depth, last>>

UWraps == {"arr", "objReq", "objOpt", "unionStr", "partial", "required", "keyof", "indexA", "recordVal", "pickA", "omitA"}
ApplyU(w, t) ==
  CASE w = "arr"       -> Arr(t)
    [] w = "objReq"    -> OO(<<Prop("p", t, FALSE)>>)
    [] w = "objOpt"    -> OO(<<Prop("p", t, TRUE)>>)
    [] w = "unionStr"  -> Uni(<<t, TString>>)
    [] w = "partial"   -> Util("Partial", <<t>>)
    [] w = "required"  -> Util("Required", <<t>>)
    [] w = "keyof"     -> KeyOf(t)
    [] w = "indexA"    -> Index(t, LS("a"))
    [] w = "recordVal" -> Util("Record", <<TString, t>>)
    [] w = "pickA"     -> Util("Pick", <<t, LS("a")>>)
    [] w = "omitA"     -> Util("Omit", <<t, LS("a")>>)

\* a wrapper is applicable when TypeScript accepts it: object-only operators need an all-object operand (with key a where indexed)
Applicable(w, t) ==
  LET objs == ObjOf(t, Env)
      allObj == AllObjects(t, Env) /\ objs # {}
  IN CASE w \in {"partial", "required", "keyof"} -> allObj
       [] w \in {"indexA", "pickA"} -> allObj /\ \A o \in objs : HasProp(o, "a")
       [] w = "omitA" -> allObj
       [] OTHER -> TRUE

UInit == /\ \E i \in DOMAIN ULeaves : ty = ULeaves[i]
         /\ depth = 0 /\ last = "leaf"
UNext == /\ depth < MaxDepth
         /\ \E w \in UWraps : Applicable(w, ty) /\ ty' = ApplyU(w, ty) /\ last' = w
         /\ depth' = depth + 1
USpec == UInit /\ [][UNext]_uvars

NEnv == EvEnv(Env)
NTy == Ev(ty, Env)
\* values of the operand of a type operator: what Exclude / Extract / Omit / Pick ... take away must be rejected, so the members of
\* the first operand are probes of the result (they need not look like members of the result at all)
OperandProbes == IF ty.t = "util" /\ Len(ty.args) >= 1 THEN Take(Rich(Ev(ty.args[1], Env), NEnv, 2), 12) ELSE {}
UProbes == SetToSeq(Probe(NTy, NEnv, 2, 40) \cup OperandProbes)
UCase ==
  LET ps == UProbes IN
  [ fam |-> "util", depth |-> depth, last |-> last, ty |-> ty, env |-> Env, nty |-> NTy, nenv |-> NEnv,
    probes |-> [i \in DOMAIN ps |-> [ v |-> ps[i], e |-> M3(ps[i], NTy, NEnv, {}, FALSE), es |-> M3(ps[i], NTy, NEnv, {}, TRUE) ]] ]
=============================================================================

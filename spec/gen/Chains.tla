--------------------------- MODULE Chains ---------------------------
(***************************************************************************)
(* C09, second generator: CHAINS of declarations, each link defined in     *)
(* terms of the previous one, distributed over files of identical shape.   *)
(* Modules.tla varies how ONE reference crosses a file boundary; here a    *)
(* resolution has to follow several boundaries in a row (a constant that   *)
(* is another file's constant, an alias of an alias, an interface that     *)
(* extends an imported interface that extends ..., a generic applied to a  *)
(* generic of the previous file), and the files are rendered with the same *)
(* text layout (m0.ts, m1.ts, ... with names of equal length), so that     *)
(* positions, spans and local names coincide between files.                *)
(* A state is one project.  For every (len, kind) the layout "single"      *)
(* (everything in entry.ts) is the reference: every other layout must      *)
(* compile to the same validators (Trace_Modules.tla, one base per group). *)
(* Rendering: lib/p_modules.py render_chain (the rules are stated there).  *)
(***************************************************************************)
EXTENDS Naturals, Sequences, TLC

Lens   == 2..4
Kinds  == {"const", "constprop", "alias", "iface", "generic", "enumconst", "tupconst",
           \* a chain of constants next to a type, reached as a whole: the root is { api: typeof <namespace import of a barrel that
           \* re-exports the type and the constants by name>; u: <the type, through the same barrel> }
           "nsvalue"}
Splits == {"single", "each", "pairs", "firstonly"}     \* each: link i in m<i>.ts; pairs: two links per file; firstonly: only link 0 is moved out
Styles == {"named", "ns", "renamed", "hub"}            \* how a link reaches the previous one across a file boundary

VARIABLES len, kind, split, style
cvars == <<len, kind, split, style>>

\* beff declares `interface I extends NS.J` unsupported syntax ("Extends should be an identifier", a located diagnostic, C04):
\* the namespace style is not applied to interface chains
Declined(k, st) == (k = "iface" /\ st = "ns") \/ (k = "nsvalue" /\ st \notin {"hub", "none"})
CInit == /\ len \in Lens /\ kind \in Kinds /\ split \in Splits
         /\ style \in (IF split = "single" THEN {"none"} ELSE Styles)
         /\ ~Declined(kind, style)
         /\ ~(kind = "nsvalue" /\ split = "firstonly")      \* (every constant lives outside entry.ts, so the barrel exports all of them)
CSpec == CInit /\ [][UNCHANGED cvars]_cvars

\* the file of link i (0-based) under a split; "entry" holds the root type T
M(i) == "m" \o ToString(i)
FileOf(i) ==
  CASE split = "single"    -> "entry"
    [] split = "each"      -> M(i)
    [] split = "pairs"     -> M((i \div 2) * 2)
    [] split = "firstonly" -> IF i = 0 THEN M(0) ELSE "entry"
\* design-level sanity: a chain has at least one boundary unless it is the reference layout
CrossesBoundary == split # "single" => \E i \in 1..len : FileOf(i) # FileOf(i - 1) \/ FileOf(len) # "entry"
=============================================================================

--------------------------- MODULE TsWhole ---------------------------
(***************************************************************************)
(* Whole-project generator for C04 (statement level; TsGrammar covers the  *)
(* type-expression level inside one fixed frame).  A state is one project: *)
(*  (a) a module b.ts written in one of the ExportForms, an entry file     *)
(*      that imports its default / namespace in one of the ImportForms and *)
(*      mentions the imported name in one of the UseForms - every cell of  *)
(*      the product, well-formed TypeScript or not, because "compilation   *)
(*      is total" quantifies over all of them;                             *)
(*  (b) one of the Specials: complete entry files for shapes that do not   *)
(*      fit frame (a): generic instantiation that never reaches a fixed    *)
(*      point, declared names that look like generated ones, requested     *)
(*      parser names that are special for JavaScript objects.              *)
(* The expected outcome is the same for every state: code that loads and   *)
(* yields exactly the requested parsers, or located diagnostics            *)
(* (Trace_Compile.tla judges the recorded outcome).                        *)
(***************************************************************************)
EXTENDS Naturals, Sequences

ExportForms == <<
  "const v = 1;\nexport { v as default };\n",
  "export default 1;\n",
  "const o = { A: 1, B: \"b\" } as const;\nexport default o;\n",
  "type X = { A: string };\nexport default X;\n",
  "enum En { A = \"a\", B = \"b\" }\nexport default En;\n",
  "export default class Kl { A = 1 }\n",
  "export default function f() {}\n",
  "interface I { A: string }\nexport { I as default };\n",
  "export * as default from \"./m\";\n",
  "import D from \"./entry\";\nexport default D;\n",
  "export type A = string;\nexport const A = 1;\ntype Both = { A: A };\nexport default Both;\n",
  "declare const dv: { A: number };\nexport default dv;\n",
  "export { default } from \"./m\";\n",
  "export { X as default } from \"./m\";\n",
  "namespace NS { export type A = string }\nexport default NS;\n",
  "export default { A: 1 };\n",
  "type G<T> = { A: T };\nexport default G;\n",
  ""
>>

ImportForms == <<
  "import E from \"./b\";\n",
  "import * as E from \"./b\";\n",
  "import { default as E } from \"./b\";\n",
  "import type E from \"./b\";\n",
  "import E = require(\"./b\");\n",
  "type E = import(\"./b\").default;\n"
>>

UseForms == <<
  "E", "E.A", "typeof E", "typeof E.A", "E[\"A\"]", "keyof E", "E<string>", "{ [K in E]: 1 }", "Array<E>", "typeof E.default", "E.default",
  "keyof typeof E", "E.A.B", "Partial<E>", "(typeof E)[\"A\"]"
>>

MFile == "export type X = { A: boolean };\nexport const A = 2;\nconst dflt = { A: 3 };\nexport default dflt;\n"

HandSpecials == <<
  \* instantiation that never reaches a fixed point
  "type G<T> = { a: G<T[]> };\nparse.buildParsers<{ M: G<string> }>();\n",
  "type G<T> = { a: T; n?: G<G<T>> };\nparse.buildParsers<{ M: G<string> }>();\n",
  "type G<T> = { a: T; n?: G<T> };\nparse.buildParsers<{ M: G<string> }>();\n",
  "type G<T> = T extends string ? G<T[]> : T;\nparse.buildParsers<{ M: G<string> }>();\n",
  "interface G<T> { a: G<T[]> }\nparse.buildParsers<{ M: G<string> }>();\n",
  "interface G<T> { a: T; n?: H<T> }\ntype H<T> = { g: G<T | null> };\nparse.buildParsers<{ M: G<string> }>();\n",
  \* declared names that look like the names generated for instantiations
  "type G_instance_0 = string;\ntype G<T> = { a: T };\nparse.buildParsers<{ A: G<{ x: 1 }>, B: G<[1]>, C: G_instance_0 }>();\n",
  "type G_instance_1 = string;\ntype G<T> = { a: T };\nparse.buildParsers<{ A: G<{ x: 1 }>, B: G<[1]>, C: G_instance_1 }>();\n",
  "type RecursiveGenerated0 = string;\ntype Fo = { name: string; children: Fo[] };\ntype Ev = { t: \"a\"; p: { r: Fo } } | { t: \"b\"; p: { q: string } };\nparse.buildParsers<{ A: Ev[\"p\"], C: RecursiveGenerated0 }>();\n",
  \* requested parser names that are special for JavaScript objects
  "type T = string;\nparse.buildParsers<{ __proto__: T, U: T }>();\n",
  "type T = string;\nparse.buildParsers<{ constructor: T, toString: T, hasOwnProperty: T }>();\n",
  "type T = string;\nparse.buildParsers<{ \"a-b\": T, \"1x\": T, \"\": T }>();\n",
  "type T = string;\nparse.buildParsers<{ T: T, T: T }>();\n",
  "type T = string;\nparse.buildParsers<{ T: T }>();\nparse.buildParsers<{ T: T }>();\n",
  "type T = string;\nparse.buildParsers<{}>();\n",
  "type T = string;\nparse.buildParsers<T>();\n",
  "type T = string;\nparse.buildParsers();\n",
  "type T = string;\nparse.buildParsers<{ T: T }, number>();\n",
  "type T = string;\nparse.buildParsers<{ [k: string]: T }>();\n",
  "type T = string;\nparse.buildParsers<{ T?: T }>();\n",
  "type T = string;\nparse.buildParsers<{ readonly T: T, m(): T }>();\n",
  "type __proto__ = { a: string };\ntype T = { p: __proto__; q: __proto__ };\nparse.buildParsers<{ T: T }>();\n",
  \* alias cycles below type operators (the cycle itself is a known finding; the operators must not add new ways to diverge)
  "type A = B;\ntype B = A;\ntype M = { [K in A]: string };\nparse.buildParsers<{ M: M }>();\n",
  "interface I extends I { a: string }\nparse.buildParsers<{ I: I }>();\n",
  "interface I extends J { a: string }\ninterface J extends I { b: string }\nparse.buildParsers<{ I: I }>();\n",
  "interface I { a: string }\ninterface I { b: number }\nparse.buildParsers<{ I: I }>();\n",
  "type T = string;\ntype T = number;\nparse.buildParsers<{ T: T }>();\n",
  "enum E { A = \"a\" }\nenum E { B = \"b\" }\ntype T = E;\nparse.buildParsers<{ T: T }>();\n",
  "const x = 1;\ntype T = typeof x;\nconst x = 2;\nparse.buildParsers<{ T: T }>();\n"
>>

\* Generic declarations whose body instantiates the declaration itself with arguments that grow at every level: one such member,
\* or two members with (possibly different) growth forms - a bound on the instantiation depth must also bound the work when the
\* body branches.  Each must be answered promptly by a diagnostic.
Growth == <<"T[]", "[T]", "{ x: T }", "G<T>", "T | null">>
Tail2 == "\nparse.buildParsers<{ M: G<string> }>();\n"
Unbounded ==
  [i \in 1..5 |-> "type G<T> = { a: G<" \o Growth[i] \o "> };" \o Tail2]
  \o [i \in 1..25 |-> "type G<T> = { left: G<" \o Growth[((i - 1) \div 5) + 1] \o ">; right: G<" \o Growth[((i - 1) % 5) + 1] \o "> };" \o Tail2]
  \o [i \in 1..25 |-> "interface G<T> { left: G<" \o Growth[((i - 1) \div 5) + 1] \o ">; right?: G<" \o Growth[((i - 1) % 5) + 1] \o "> }" \o Tail2]
  \o [i \in 1..25 |-> "type G<T> = { v: T; kids: [G<" \o Growth[((i - 1) \div 5) + 1] \o ">, G<" \o Growth[((i - 1) % 5) + 1] \o ">] };" \o Tail2]
  \o [i \in 1..5 |-> "type G<T> = { v: T; a?: G<" \o Growth[i] \o ">; b?: G<" \o Growth[i] \o ">; c?: G<" \o Growth[i] \o "> };" \o Tail2]
Specials == HandSpecials \o Unbounded

VARIABLES kind, ex, im, us, sp
wvars == <<kind, ex, im, us, sp>>

WInit == \/ /\ kind = "grid" /\ ex \in DOMAIN ExportForms /\ im \in DOMAIN ImportForms /\ us \in DOMAIN UseForms /\ sp = 0
         \/ /\ kind = "special" /\ sp \in DOMAIN Specials /\ ex = 0 /\ im = 0 /\ us = 0
WSpec == WInit /\ [][UNCHANGED wvars]_wvars

Files ==
  IF kind = "grid"
  THEN << <<"entry.ts", ImportForms[im] \o "type T = " \o UseForms[us] \o ";\nparse.buildParsers<{ T: T }>();\n">>,
          <<"b.ts", ExportForms[ex]>>, <<"m.ts", MFile>> >>
  ELSE << <<"entry.ts", Specials[sp]>> >>
=============================================================================

--------------------------- MODULE TsGrammar ---------------------------
(***************************************************************************)
(* C04: type expressions over the WHOLE TypeScript type syntax - supported *)
(* by beff or not - as a state machine on source text.  A state is a type  *)
(* expression; actions are the productions of the grammar (every TsType /  *)
(* TsTypeElement / utility the frontend distinguishes, plus the ones it    *)
(* rejects).  The expression is placed into a fixed prelude of             *)
(* declarations (objects, unions, generics, enums, consts, interfaces,     *)
(* recursive and cyclic aliases) and compiled: the outcome must be code or *)
(* located diagnostics, never a panic, an abort or a timeout.              *)
(***************************************************************************)
EXTENDS Naturals, Sequences, FiniteSets, TLC

CONSTANTS MaxDepth, LeafSet, WrapSet

Prelude ==
  "type A = { a: string; b?: number };\n" \o
  "type B = \"x\" | \"y\";\n" \o
  "type N = 1 | 2;\n" \o
  "type G<T> = { v: T; next?: G<T> };\n" \o
  "type G2<T, U = string> = [T, U];\n" \o
  "interface I { i: number }\n" \o
  "interface J extends I { j: A }\n" \o
  "enum E { P = \"p\", Q = \"q\" }\n" \o
  "enum F { Z, O }\n" \o
  "const c = { k: \"v\", n: 1, nested: { deep: true } } as const;\n" \o
  "const d = [1, \"two\"];\n" \o
  "declare const dc: A;\n" \o
  "type R = { self?: R; list: R[] };\n" \o
  "type C1 = C2;\ntype C2 = C1;\n" \o
  "type U3 = { t: \"a\"; x: 1 } | { t: \"b\"; y: 2 };\n" \o
  "type Al1 = B;\ntype Al2 = Al1;\n" \o
  "type Fn = (x: number) => string;\n" \o
  "class K { m = 1 }\n" \o
  "const cyc1 = cyc2;\nconst cyc2 = cyc1;\n" \o
  "type U4 = { t: \"a\" | \"b\"; x: 1 } | { t: \"b\"; y: 2 };\n" \o
  "type U5 = { t: \"a\" | \"b\" } | { t: \"b\" | \"c\" };\n" \o
  \* declarations of a second, much longer file (lib/p_compile.py EXTRA_FILES): diagnostics raised inside them must be located there
  "import { BadE as IBadE, CallE as ICallE, BadT as IBadT, BadI as IBadI, Rf as IRf } from \"./m\";\n" \o
  \* a second requested parser that is materialised from a semantic type with a nested recursive named type
  "type Fo = { name: string; children: Fo[] };\ntype Cm = { text: string; replies: Cm[] };\n" \o
  "type FsEv = { type: \"created\"; payload: { root: Fo } } | { type: \"removed\"; payload: { path: string } };\n" \o
  "type ThEv = { type: \"posted\"; payload: { top: Cm } } | { type: \"locked\"; payload: { by: string } };\n" \o
  "type Sem1 = FsEv[\"payload\"];\n" \o
  \* recursive container aliases (they reach the semantic engine through Exclude / conditional / keyof productions)
  "type MT = Map<string, MT>;\ntype MD = Map<string, MD | number>;\ntype ST = Set<ST | string>;\ntype AT = AT[];\n" \o
  \* an enum with a string-literal member name, a union alias that mentions itself, a constant initialised from its own member
  "enum ES { \"a-b\" = 1, C = 2 }\ntype SU = \"a\" | SU;\nconst sa = sa.x;\ntype E0 = \"\";\n"

Leaves == <<
  "string", "number", "boolean", "null", "undefined", "void", "any", "unknown", "never", "object", "symbol", "bigint",
  "\"lit\"", "1", "-1", "1n", "true", "`t${string}`", "`${B}-${N}`", "`${A}`",
  "A", "B", "N", "G<string>", "G<G<B>>", "G", "G2<string>", "G2<1, 2, 3>", "I", "J", "E", "E.P", "F", "F.Z", "R", "C1", "U3", "Al2", "Fn", "K",
  "Missing", "A.a", "typeof c", "typeof c.k", "typeof c.nested.deep", "typeof d", "typeof dc", "typeof Missing", "typeof E", "typeof K",
  "Date", "Map<string, A>", "Set<B>", "Map<string>", "Uint8Array", "Array<A>", "Array", "ReadonlyArray<B>", "Promise<A>", "Function", "Object", "String",
  "typeof cyc1", "U4", "U5", "`line1\nline2${string}`", "`a\\b${number}`", "`q\"uote${string}`", "\"multi\\nline\"",
  "{}", "[]", "this", "unique symbol", "import(\"./m\").X", "import(\"./missing\").X",
  "IBadE", "IBadE.Low", "ICallE", "IBadT", "IBadI", "IRf", "import(\"./m\").BadE", "import(\"./m\").CallE", "import(\"./m\").BadT",
  "import(\"./m\").Rf", "ThEv[\"payload\"]", "FsEv[\"payload\"]", "(ThEv | FsEv)[\"payload\"]", "Fo", "Sem1",
  "MT", "MD", "ST", "AT", "ES", "ES.C", "SU", "typeof sa", "`${E0}${\"\"}`", "`a${\"\" | \"b\"}`", "[id: string, ...values: number[]]",
  "[string, ...number[], boolean]", "3.14159", "1e21", "-0",
  "import(\"./cyc1\").Own1", "import(\"./cyc1\").Nope", "import(\"./rc1\").RX", "import(\"./dd\").DY", "import(\"./dd\").default",
  "typeof import(\"./cyc1\").nope"
>>

\* wrappers: <<prefix, suffix>> around the current expression X
Wraps == <<
  <<"Array<", ">">>, <<"(", ")[]">>, <<"readonly (", ")[]">>, <<"[", "]">>, <<"[", ", string]">>, <<"[string, ...(", ")[]]">>, <<"[a: ", ", b?: number]">>,
  <<"[(", ")?]">>, <<"[...(", ")]">>,
  <<"{ p: ", " }">>, <<"{ p?: ", " }">>, <<"{ readonly p: ", " }">>, <<"{ [k: string]: ", " }">>, <<"{ [k: number]: ", " }">>,
  <<"{ [k: string]: ", "; [j: number]: string }">>, <<"{ [K in B]: ", " }">>, <<"{ [K in B]?: ", " }">>, <<"{ [K in B]-?: ", " }">>,
  <<"{ [K in keyof A]: ", " }">>, <<"{ [K in B as `p${K}`]: ", " }">>, <<"{ m(): ", " }">>, <<"{ (x: number): ", " }">>, <<"{ new (): ", " }">>,
  <<"{ get g(): ", " }">>, <<"{ \"quoted-key\": ", "; 0: string }">>,
  <<"(", ") | string">>, <<"(", ") | null | undefined">>, <<"(", ") & A">>, <<"(", ") & string">>, <<"A | (", ")">>, <<"(", ") | (", ")">>,
  <<"keyof (", ")">>, <<"(", ")[\"a\"]">>, <<"(", ")[number]">>, <<"(", ")[keyof A]">>, <<"A[(", ")]">>, <<"(", ")[\"missing\"]">>,
  <<"Partial<", ">">>, <<"Required<", ">">>, <<"Readonly<", ">">>, <<"Pick<", ", \"a\">">>, <<"Omit<", ", \"a\">">>, <<"Pick<A, ", ">">>, <<"Omit<A, ", ">">>,
  <<"Record<string, ", ">">>, <<"Record<", ", number>">>, <<"Record<B, ", ">">>, <<"Exclude<", ", string>">>, <<"Exclude<B | N, ", ">">>,
  <<"Exclude<number, ", ">">>, <<"Exclude<string, ", ">">>, <<"Exclude<A | B, ", ">">>, <<"Exclude<unknown, ", ">">>, <<"keyof Exclude<A, ", ">">>,
  <<"Extract<", ", string>">>, <<"NonNullable<", ">">>, <<"ReturnType<", ">">>, <<"Awaited<", ">">>, <<"Uppercase<", ">">>, <<"Parameters<", ">">>,
  <<"Partial<Record<B, ", ">>">>, <<"G<", ">">>, <<"G2<", ", ", ">">>, <<"Map<", ", string>">>, <<"Map<string, ", ">">>, <<"Set<", ">">>,
  <<"(", ") extends string ? 1 : 2">>, <<"string extends (", ") ? \"y\" : \"n\"">>, <<"A extends (", ") ? (", ") : never">>,
  <<"(", ") extends infer Q ? Q : never">>, <<"(x: ", ") => void">>, <<"new (x: ", ") => A">>, <<"() => (", ")">>,
  <<"`p${", "}`">>, <<"`${", "}s${string}`">>, <<"typeof (", ")">>, <<"(asserts x is ", ")">>,
  <<"StringFormat<", ">">>, <<"StringFormat<\"f1\"> | (", ")">>, <<"NumberFormat<\"nope\"> | (", ")">>, <<"StringFormatExtends<", ", \"f2\">">>
>>

VARIABLES expr, depth
gvars == <<expr, depth>>

Apply(w, x) == IF Len(w) = 2 THEN w[1] \o x \o w[2] ELSE w[1] \o x \o w[2] \o x \o w[3]

GInit == /\ \E i \in LeafSet \cap DOMAIN Leaves : expr = Leaves[i]
         /\ depth = 0
GNext == /\ depth < MaxDepth
         /\ \E i \in WrapSet \cap DOMAIN Wraps : expr' = Apply(Wraps[i], expr)
         /\ depth' = depth + 1
GSpec == GInit /\ [][GNext]_gvars

Program == Prelude \o "type T = " \o expr \o ";\nparse.buildParsers<{ T: T, Sem1: Sem1 }>();\n"
=============================================================================

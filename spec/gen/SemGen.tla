--------------------------- MODULE SemGen ---------------------------
(***************************************************************************)
(* The format-free fragment of properties C05 - C07 (null, booleans,       *)
(* numbers, strings, their literals, arrays, tuples with rest, objects     *)
(* with required / optional properties and index signatures, unions,       *)
(* intersections, named possibly recursive references) and the state       *)
(* machine over ordered PAIRS of its types: a state is (ia, ib), indices   *)
(* into the fragment; every pair is reachable.                             *)
(***************************************************************************)
EXTENDS SemLevel

CONSTANTS Level      \* 0: leaves only, 1: + depth-1 constructors over the small leaf set, 2: + unions/intersections of compounds

Env == <<
  [n |-> "L",   kind |-> "type", ty |-> Obj(<<Prop("v", TNumber, FALSE), Prop("next", Ref("L"), TRUE)>>, <<>>)],
  [n |-> "Tr",  kind |-> "type", ty |-> Uni(<<TString, Arr(Ref("Tr"))>>)],
  [n |-> "M1",  kind |-> "type", ty |-> Obj(<<Prop("m", Ref("M2"), TRUE)>>, <<>>)],
  [n |-> "M2",  kind |-> "type", ty |-> Obj(<<Prop("n", Ref("M1"), TRUE), Prop("x", LN("1"), FALSE)>>, <<>>)],
  [n |-> "Inf", kind |-> "type", ty |-> Obj(<<Prop("self", Ref("Inf"), FALSE)>>, <<>>)],
  [n |-> "Tu",  kind |-> "type", ty |-> Tup(<<TNumber>>, <<Ref("Tu")>>)],
  [n |-> "Ln",  kind |-> "type", ty |-> Uni(<<TNull, Obj(<<Prop("v", TNumber, FALSE), Prop("next", Ref("Ln"), FALSE)>>, <<>>)>>)],
  \* recursion that only passes through an index signature (nested dictionary), with and without a declared property
  [n |-> "Di",  kind |-> "type", ty |-> Obj(<<>>, <<Ix(TString, Ref("Di"))>>)],
  [n |-> "Dj",  kind |-> "type", ty |-> Obj(<<Prop("a", TNumber, TRUE)>>, <<Ix(TString, Uni(<<TNumber, Ref("Dj")>>))>>)],
  \* a cycle through three declarations that loops back into a union with an inhabited member
  [n |-> "P3",  kind |-> "type", ty |-> Obj(<<Prop("b", Ref("Q3"), FALSE)>>, <<>>)],
  [n |-> "Q3",  kind |-> "type", ty |-> Obj(<<Prop("c", Ref("R3"), FALSE)>>, <<>>)],
  [n |-> "R3",  kind |-> "type", ty |-> Obj(<<Prop("a", Uni(<<Ref("P3"), Ref("D3")>>), FALSE)>>, <<>>)],
  [n |-> "D3",  kind |-> "type", ty |-> Obj(<<Prop("z", TNull, FALSE)>>, <<>>)],
  \* a recursive tuple without a base case (uninhabited, but not literally never)
  [n |-> "LL",  kind |-> "type", ty |-> Tup(<<TNumber, Ref("LL")>>, <<>>)],
  \* named tuples of different lengths whose intersection is inhabited (named types get their atoms when first referenced)
  [n |-> "Tp",  kind |-> "type", ty |-> Tup(<<TString, TNumber>>, <<>>)],
  [n |-> "Tq",  kind |-> "type", ty |-> Tup(<<TString>>, <<TNumber>>)],
  \* recursion through the entries of a Map / the members of a Set
  [n |-> "MR",  kind |-> "type", ty |-> MapT(TString, Uni(<<TNumber, Ref("MR")>>))],
  [n |-> "SR",  kind |-> "type", ty |-> SetT(Uni(<<TString, Ref("SR")>>))]
>>

Leaves == <<TNull, TBoolean, LB(TRUE), TNumber, LN("1"), LN("2"), TString, LS("a"), LS("b")>>
Small  == <<TNull, TNumber, LN("1"), TString, LS("a")>>
O(ps) == Obj(ps, <<>>)
Set2Seq(S) == SetToSeq(S)

Depth1 ==
  {Arr(x) : x \in SeqToSet(Small)}
  \cup {Tup(<<x>>, <<>>) : x \in SeqToSet(Small)} \cup {Tup(<<>>, <<>>)}
  \cup {Tup(<<x, y>>, <<>>) : x \in {TNumber, LN("1"), TString}, y \in {TNumber, TString, TNull}}
  \cup {Tup(<<x>>, <<y>>) : x \in {TNumber, LN("1"), TString}, y \in {TNumber, TString}}
  \cup {O(<<Prop("a", x, o)>>) : x \in SeqToSet(Small), o \in BOOLEAN}
  \cup {O(<<Prop("a", x, o1), Prop("b", y, o2)>>) : x \in {TNumber, LN("1"), TString}, y \in {TNumber, TNull}, o1 \in BOOLEAN, o2 \in BOOLEAN}
  \cup {O(<<>>)}
  \cup {Obj(<<>>, <<Ix(TString, x)>>) : x \in SeqToSet(Small)}
  \cup {Obj(<<Prop("a", x, o)>>, <<Ix(TString, Uni(<<x, TNull>>))>>) : x \in {TNumber, TString}, o \in BOOLEAN}
  \cup {Uni(<<x, y>>) : x \in {TNull, TNumber, LN("1"), TString}, y \in {TBoolean, LN("2"), LS("a"), TString}}
  \cup {Inter(<<x, y>>) : x \in {TNumber, LN("1"), TString}, y \in {TNumber, LN("1"), LS("a")}}
  \cup {Ref(Env[i].n) : i \in DOMAIN Env}
  \* a named type next to another member of the same kind: the same atom (named types are memoized) occurs on both sides of a
  \* comparison, inside a decision diagram that has further members
  \cup {Uni(<<Ref(nm), o>>) : nm \in {"L", "M1"}, o \in {O(<<Prop("a", TString, FALSE)>>), O(<<Prop("b", TNumber, FALSE)>>)}}
  \cup {Uni(<<Ref("Tu"), t>>) : t \in {Tup(<<TString>>, <<>>), Tup(<<TNull>>, <<>>)}}
  \* members that are uninhabited without being written `never`, inside tuples / objects / unions
  \cup {Tup(<<Inter(<<O(<<Prop("a", TNumber, FALSE)>>), O(<<Prop("a", TString, FALSE)>>)>>), TNull>>, <<>>),
        Uni(<<Tup(<<TString>>, <<>>), Ref("LL")>>), Uni(<<Tup(<<TString>>, <<>>), Tup(<<Inter(<<LN("1"), TString>>), TNull>>, <<>>)>>),
        O(<<Prop("l", Ref("LL"), FALSE)>>), Tup(<<Tup(<<Ref("LL")>>, <<>>)>>, <<>>),
        O(<<Prop("f", Uni(<<Ref("P3"), Ref("D3")>>), FALSE), Prop("g", Ref("Q3"), FALSE)>>),
        O(<<Prop("f", Ref("Q3"), FALSE), Prop("g", Uni(<<Ref("P3"), Ref("D3")>>), FALSE)>>)}
  \* two positive list atoms in one conjunction (the prefix of one is longer than the other's, whose rest covers it), both orders
  \cup {Inter(<<Tup(<<TString, TNumber>>, <<>>), Tup(<<TString>>, <<TNumber>>)>>), Inter(<<Tup(<<TString>>, <<TNumber>>), Tup(<<TString, TNumber>>, <<>>)>>),
        Inter(<<Tup(<<TString>>, <<TNumber>>), Tup(<<TString, TNumber>>, <<TNumber>>)>>),
        \* (tuple shapes that occur nowhere else: the engine numbers atoms in the order it first meets them, and a conjunction
        \* lists them in that order - here the longer tuple is met first in one type and second in the other)
        Inter(<<Ref("Tp"), Ref("Tq")>>), Inter(<<Ref("Tq"), Ref("Tp")>>),
        Inter(<<Tup(<<TBoolean, TNumber>>, <<>>), Tup(<<TBoolean>>, <<TNumber>>)>>),
        Inter(<<Tup(<<LB(TRUE)>>, <<TString>>), Tup(<<LB(TRUE), TString>>, <<>>)>>)}
  \* an index signature whose value is a union, against the union of the index signatures (different keys may take different members)
  \cup {Obj(<<>>, <<Ix(TString, Uni(<<TString, TNumber>>))>>),
        Uni(<<Obj(<<>>, <<Ix(TString, TString)>>), Obj(<<>>, <<Ix(TString, TNumber)>>)>>),
        Uni(<<Obj(<<Prop("a", TString, TRUE)>>, <<Ix(TString, TString)>>), Obj(<<>>, <<Ix(TString, TNumber)>>)>>)}
  \* the tags beyond JSON: bigint and Date (no proper subtypes), typed arrays (told apart by constructor), Map and Set (decision
  \* diagrams over atoms <key type, value type> / <member type>), next to the JSON tags they must not be confused with
  \cup {Prim("bigint"), Prim("Date"), TaT("Uint8Array"), TaT("Int16Array"),
        MapT(TString, TNumber), MapT(TString, Uni(<<TNumber, TString>>)), MapT(LS("a"), TNumber), MapT(TString, LN("1")), MapT(TNumber, TString),
        SetT(TString), SetT(LS("a")), SetT(Uni(<<TString, TNumber>>)), SetT(TNever),
        Uni(<<MapT(TString, TNumber), O(<<Prop("a", TString, FALSE)>>)>>), Uni(<<SetT(TString), Arr(TString)>>),
        Uni(<<MapT(TString, TNumber), MapT(TString, TString)>>), Uni(<<SetT(TString), SetT(TNumber)>>),
        Uni(<<Prim("Date"), TNull>>), Uni(<<TaT("Uint8Array"), TaT("Int16Array")>>), Uni(<<Prim("bigint"), TNumber>>),
        Inter(<<MapT(TString, Uni(<<TNumber, TString>>)), MapT(TString, TNumber)>>), Inter(<<SetT(Uni(<<TString, TNumber>>)), SetT(TString)>>),
        O(<<Prop("m", MapT(TString, TNumber), FALSE), Prop("s", SetT(TString), TRUE)>>), Arr(Prim("Date")), Tup(<<Prim("bigint")>>, <<TaT("Uint8Array")>>)}
  \* tuples and arrays whose rest / element is unknown
  \cup {Tup(<<TString>>, <<Prim("unknown")>>), Tup(<<TString, TNumber>>, <<Prim("unknown")>>), Arr(Prim("unknown")),
        Uni(<<Tup(<<TString>>, <<Prim("unknown")>>), TNull>>)}

\* unions of a two-key object and a one-key object (several negative record atoms against one positive: the emptiness check
\* splits the positive key by key and asks the remaining negatives about every fragment), in both orders of the members (atoms are
\* numbered in the order they are met).  They are paired with the object-like types of the fragment only (MapSide), in both directions.
WideSet ==
  {Uni(<<O(<<Prop("a", x, o), Prop("b", y, o)>>), O(<<Prop(k, z, FALSE)>>)>>)
         : x \in {TString, TNumber}, y \in {TString, TNumber}, o \in BOOLEAN, k \in {"a", "b"}, z \in {TString, TNumber}}
  \cup {Uni(<<O(<<Prop(k, z, FALSE)>>), O(<<Prop("a", x, TRUE), Prop("b", y, TRUE)>>)>>)
         : x \in {TString, TNumber}, y \in {TString, TNumber}, k \in {"a", "b"}, z \in {TString, TNumber}}

Depth2 ==
  {Uni(<<O(<<Prop("a", TNumber, FALSE)>>), O(<<Prop("b", TString, FALSE)>>)>>),
   Uni(<<O(<<Prop("a", LN("1"), FALSE)>>), O(<<Prop("a", LN("2"), FALSE)>>)>>),
   Inter(<<O(<<Prop("a", TNumber, FALSE)>>), O(<<Prop("b", TString, FALSE)>>)>>),
   Inter(<<O(<<Prop("a", TNumber, FALSE)>>), O(<<Prop("a", LN("1"), FALSE)>>)>>),
   Inter(<<O(<<Prop("a", TNumber, TRUE)>>), Obj(<<>>, <<Ix(TString, TNumber)>>)>>),
   Uni(<<Arr(TNumber), Tup(<<TString>>, <<>>)>>), Uni(<<Tup(<<>>, <<>>), Tup(<<TNumber>>, <<TNumber>>)>>),
   Arr(Uni(<<TNumber, TString>>)), Arr(Arr(TNumber)), Arr(O(<<Prop("a", TNumber, TRUE)>>)),
   O(<<Prop("a", O(<<Prop("b", TNumber, FALSE)>>), FALSE)>>), O(<<Prop("a", O(<<Prop("b", TNumber, TRUE)>>), TRUE)>>),
   O(<<Prop("a", Arr(TNumber), FALSE)>>), O(<<Prop("a", Uni(<<TNumber, TNull>>), FALSE)>>),
   Tup(<<Uni(<<TNumber, TString>>)>>, <<>>), Tup(<<TNumber>>, <<Uni(<<TNumber, TString>>)>>),
   Uni(<<Ref("L"), TNull>>), Arr(Ref("L")), O(<<Prop("v", TNumber, FALSE)>>), O(<<Prop("v", TNumber, FALSE), Prop("next", O(<<Prop("v", TNumber, FALSE)>>), TRUE)>>),
   Uni(<<TString, Arr(TString)>>), Uni(<<TString, Arr(Uni(<<TString, Arr(TString)>>))>>),
   Inter(<<Ref("L"), O(<<Prop("v", LN("1"), FALSE)>>)>>), Uni(<<Ref("M1"), Ref("M2")>>),
   Obj(<<>>, <<Ix(TString, TNever)>>), Obj(<<>>, <<Ix(TString, Ref("Inf"))>>), Arr(TNever), Arr(Ref("Inf")), Tup(<<Ref("Inf")>>, <<>>),
   Uni(<<TNumber, TString, TNull, TBoolean>>)}

CoreSet == SeqToSet(Leaves) \cup (IF Level >= 1 THEN Depth1 ELSE {}) \cup (IF Level >= 2 THEN Depth2 ELSE {}) \cup {TNever}
WideOnly == IF Level >= 1 THEN WideSet \ CoreSet ELSE {}
FragSet == CoreSet \cup WideOnly
Frag == SetToSeq(CoreSet) \o SetToSeq(WideOnly)
NFrag == Len(Frag)
NCore == Cardinality(CoreSet)
\* the object-like types: object literals, and references to / unions and intersections of them
RECURSIVE IsMapSideT(_, _)
IsMapSideT(T, f) ==
  CASE T.t = "obj" -> TRUE
    [] T.t \in {"union", "inter"} -> \E i \in DOMAIN T.ms : IsMapSideT(T.ms[i], f)
    [] T.t = "ref" -> f > 0 /\ IsMapSideT(Lookup(Env, T.n), f - 1)
    [] OTHER -> FALSE
IsMapSide(i) == IsMapSideT(Frag[i], 2)
Allowed(i, j) == (i <= NCore /\ j <= NCore) \/ (i > NCore /\ IsMapSide(j)) \/ (j > NCore /\ IsMapSide(i))

VARIABLES ia, ib
svars == <<ia, ib>>
SInit == ia = 1 /\ ib = 1
\* actions: step either register to any type of the fragment
SNext == \/ \E i \in 1..NFrag : ia' = i /\ ib' = ib /\ Allowed(i, ib)
         \/ \E i \in 1..NFrag : ib' = i /\ ia' = ia /\ Allowed(ia, i)
SSpec == SInit /\ [][SNext]_svars

A == Frag[ia]
B == Frag[ib]

\* ------------------------------------------------------------------ spec-internal laws of the reference
RefLaws ==
  /\ WitSound(A, Env)
  /\ (ia = ib => Sub(A, B, Env))                                   \* reflexive
  /\ WitComplete(A, B, Env)
=============================================================================

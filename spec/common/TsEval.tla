--------------------------- MODULE TsEval ---------------------------
(***************************************************************************)
(* Type-level evaluation of TypeScript's type operators, independent of    *)
(* beff's implementation: Ev(T, env) rewrites a term that uses keyof,      *)
(* indexed access, mapped and conditional types, Partial / Required / Pick *)
(* / Omit / Record / Exclude / Extract / NonNullable / Readonly, enums,    *)
(* typeof of constants and interface extends into the base language of     *)
(* BeffTypes (prim, lit, tpl, arr, tuple, obj, union, inter, ref).         *)
(* Terms:  [t |-> "util", u |-> name, args |-> <<..>>]                     *)
(*         [t |-> "keyof", a], [t |-> "index", a, i]                       *)
(*         [t |-> "cond", a, b, x, y], [t |-> "mapped", kv, keys, v, opt]     *)
(*         [t |-> "enumref", n], [t |-> "enummember", n, m]                *)
(*         [t |-> "typeof", n]                                             *)
(* Declarations of kind "enum" carry ms = <<[name, v]>>; kind "const"      *)
(* carry cty = the type of the initialiser; kind "interface" may carry     *)
(* ext = <<Ref(..)>>.                                                      *)
(***************************************************************************)
EXTENDS SemLevel

Util(u, args) == [t |-> "util", u |-> u, args |-> args]
KeyOf(a)      == [t |-> "keyof", a |-> a]
Index(a, i)   == [t |-> "index", a |-> a, i |-> i]
Cond(a, b, x, y) == [t |-> "cond", a |-> a, b |-> b, x |-> x, y |-> y]
\* { [kv in keys]opt: v } - the value type may mention the key variable as Param(kv)
MappedK(kv, keys, v, opt) == [t |-> "mapped", kv |-> kv, keys |-> keys, v |-> v, opt |-> opt]
Mapped(keys, v, opt) == MappedK("K", keys, v, opt)
\* `{ [K in keys]+?: v }`: the explicit spelling of the optional modifier
MappedPlus(keys, v) == [t |-> "mapped", kv |-> "K", keys |-> keys, v |-> v, opt |-> TRUE, plus |-> TRUE]
EnumRef(n)    == [t |-> "enumref", n |-> n]
EnumMember(n, m) == [t |-> "enummember", n |-> n, m |-> m]
TypeOf(n)     == [t |-> "typeof", n |-> n]

MkUnion(S) == IF S = {} THEN TNever ELSE IF Cardinality(S) = 1 THEN CHOOSE x \in S : TRUE ELSE Uni(SetToSeq(S))

\* numbers are carried as strings
NumIndex(n) == CASE n = "0" -> 0 [] n = "1" -> 1 [] n = "2" -> 2 [] n = "3" -> 3 [] n = "4" -> 4 [] n = "5" -> 5 [] OTHER -> 99

RECURSIVE Ev(_, _), ObjOf(_, _)

\* the object view of a type: a set of object types whose union it is (through refs, unions, merged intersections)
ObjOf(T, env) == {b \in Branches(Ev(T, env), env) : b.t = "obj"}
AllObjects(T, env) == \A b \in Branches(Ev(T, env), env) : b.t = "obj"

\* string literal members of a key type
KeyLits(K, env) == {b.v.s : b \in {b \in Branches(Ev(K, env), env) : b.t = "lit" /\ b.v.k = "str"}}
KeyHasString(K, env) == \E b \in Branches(Ev(K, env), env) : b.t = "prim" /\ b.p = "string"

MapProps(o, f(_)) == [o EXCEPT !.ps = [i \in DOMAIN o.ps |-> f(o.ps[i])]]
AddUndef(ty) == Uni(<<ty, TUndef>>)

Ev(T, env) ==
  CASE T.t = "util" ->
         (CASE T.u = "Partial"  -> MkUnion({[MapProps(o, LAMBDA p : [p EXCEPT !.opt = TRUE])
                                               EXCEPT !.ix = [i \in DOMAIN o.ix |-> [o.ix[i] EXCEPT !.vt = AddUndef(@)]]]
                                            : o \in ObjOf(T.args[1], env)})
            [] T.u = "Required" -> MkUnion({MapProps(o, LAMBDA p : [p EXCEPT !.opt = FALSE]) : o \in ObjOf(T.args[1], env)})
            [] T.u = "Readonly" -> Ev(T.args[1], env)
            [] T.u = "Pick"     -> MkUnion({[o EXCEPT !.ps = SelectSeq(o.ps, LAMBDA p : p.key \in KeyLits(T.args[2], env)), !.ix = <<>>]
                                            : o \in ObjOf(T.args[1], env)})
            [] T.u = "Omit"     -> MkUnion({[o EXCEPT !.ps = SelectSeq(o.ps, LAMBDA p : p.key \notin KeyLits(T.args[2], env))]
                                            : o \in ObjOf(T.args[1], env)})
            [] T.u = "Record"   -> LET ks == SetToSeq(KeyLits(T.args[1], env)) IN
                                   Obj([i \in DOMAIN ks |-> Prop(ks[i], Ev(T.args[2], env), FALSE)],
                                       IF KeyHasString(T.args[1], env) THEN <<Ix(TString, Ev(T.args[2], env))>> ELSE <<>>)
            \* distributive conditional types over the members of the (evaluated) first argument
            [] T.u = "Exclude"  -> MkUnion({b \in Branches(Ev(T.args[1], env), env) : ~Sub(b, Ev(T.args[2], env), env)})
            [] T.u = "Extract"  -> MkUnion({b \in Branches(Ev(T.args[1], env), env) : Sub(b, Ev(T.args[2], env), env)})
            [] T.u = "NonNullable" -> MkUnion({b \in Branches(Ev(T.args[1], env), env) : ~(b.t = "prim" /\ b.p \in {"null", "undefined", "void"})})
            [] OTHER -> TNever)
    [] T.t = "keyof" ->
         LET os == ObjOf(T.a, env) IN
         IF os = {} THEN TNever
         ELSE LET common == {k \in UNION {{o.ps[i].key : i \in DOMAIN o.ps} : o \in os} : \A o \in os : HasProp(o, k) \/ o.ix # <<>>}
                  anyIx == \A o \in os : o.ix # <<>>
              \* keyof of a string index signature is string | number in TypeScript; whether a JS number is a "key" is contested
              IN MkUnion({LS(k) : k \in common} \cup (IF anyIx THEN {TString, Prim("numberkey")} ELSE {}))
    [] T.t = "index" /\ (\A b \in Branches(Ev(T.a, env), env) : b.t = "tuple") ->
         \* indexed access into tuples by numeric literals: the element, or the rest type from the prefix length on
         LET ts == Branches(Ev(T.a, env), env)
             ib == Branches(Ev(T.i, env), env)
             idx == {NumIndex(b.v.n) : b \in {b \in ib : b.t = "lit" /\ b.v.k = "num"}}
             anyNumber == \E b \in ib : b.t = "prim" /\ b.p = "number"
             ElemAt(t, n) == IF n < Len(t.es) THEN {Ev(t.es[n + 1], env)} ELSE IF t.r # <<>> THEN {Ev(t.r[1], env)} ELSE {}
         IN MkUnion(UNION { UNION {ElemAt(t, n) : n \in idx}
                            \cup (IF anyNumber THEN {Ev(t.es[i], env) : i \in DOMAIN t.es} \cup {Ev(t.r[i], env) : i \in DOMAIN t.r} ELSE {})
                          : t \in ts })
    [] T.t = "index" ->
         LET os == ObjOf(T.a, env)  ks == KeyLits(T.i, env) IN
         MkUnion(UNION { { LET p == o.ps[PropIdx(o, k)] IN IF p.opt THEN AddUndef(Ev(p.ty, env)) ELSE Ev(p.ty, env)
                           : k \in {k \in ks : HasProp(o, k)} }
                         \cup { Ev(o.ix[1].vt, env) : k \in {k \in ks : ~HasProp(o, k) /\ o.ix # <<>>} }
                         \cup (IF KeyHasString(T.i, env) /\ o.ix # <<>> THEN {Ev(o.ix[1].vt, env)} ELSE {})
                       : o \in os })
    [] T.t = "cond" -> IF Sub(Ev(T.a, env), Ev(T.b, env), env) THEN Ev(T.x, env) ELSE Ev(T.y, env)
    [] T.t = "mapped" ->
         \* one property per literal key, the key variable bound to that key's literal type; a string key gives an index signature
         LET ks == SetToSeq(KeyLits(T.keys, env))
             Body(kt) == Ev(Subst(T.v, (T.kv :> kt)), env)
             \* a mapped type over `keyof X` is homomorphic: it keeps the optional modifier of X's properties
             src == IF T.keys.t = "keyof" THEN ObjOf(T.keys.a, env) ELSE {}
             SrcOpt(k) == Cardinality(src) = 1 /\ LET o == CHOOSE o \in src : TRUE IN HasProp(o, k) /\ o.ps[PropIdx(o, k)].opt
         IN Obj([i \in DOMAIN ks |-> Prop(ks[i], Body(LS(ks[i])), T.opt \/ SrcOpt(ks[i]))],
                IF KeyHasString(T.keys, env) THEN <<Ix(TString, IF T.opt THEN AddUndef(Body(TString)) ELSE Body(TString))>> ELSE <<>>)
    [] T.t = "enumref" -> LET d == DeclOf(env, T.n) IN MkUnion({Lit(d.ms[i].v) : i \in DOMAIN d.ms})
    [] T.t = "enummember" -> LET d == DeclOf(env, T.n) IN Lit(d.ms[CHOOSE i \in DOMAIN d.ms : d.ms[i].name = T.m].v)
    [] T.t = "typeof" -> DeclOf(env, T.n).cty
    [] T.t = "arr"   -> [T EXCEPT !.e = Ev(T.e, env)]
    [] T.t = "tuple" -> [T EXCEPT !.es = [i \in DOMAIN T.es |-> Ev(T.es[i], env)], !.r = [i \in DOMAIN T.r |-> Ev(T.r[i], env)]]
    [] T.t = "obj"   -> [T EXCEPT !.ps = [i \in DOMAIN T.ps |-> [T.ps[i] EXCEPT !.ty = Ev(T.ps[i].ty, env)]],
                                  !.ix = [i \in DOMAIN T.ix |-> [kt |-> Ev(T.ix[i].kt, env), vt |-> Ev(T.ix[i].vt, env)]]]
    [] T.t \in {"union", "inter"} -> [T EXCEPT !.ms = [i \in DOMAIN T.ms |-> Ev(T.ms[i], env)]]
    [] T.t = "deco"  -> Ev(T.a, env)
    \* an instance of a generic interface with an extends clause: the clause sees the interface's type parameters
    [] T.t = "app"   -> LET d == DeclOf(env, T.n) IN
                        IF "ext" \in DOMAIN d /\ d.ext # <<>>
                        THEN LET sg == [k \in {d.params[i] : i \in DOMAIN d.params} |-> T.args[CHOOSE i \in DOMAIN d.params : d.params[i] = k]]
                             IN Ev(Inter(<<Instantiate(env, T.n, T.args)>> \o [i \in DOMAIN d.ext |-> Subst(d.ext[i], sg)]), env)
                        ELSE Ev(Instantiate(env, T.n, T.args), env)
    \* a reference to an interface with extends is its merged object; other references stay (recursion is handled by M3)
    [] T.t = "ref"   -> LET d == DeclOf(env, T.n) IN
                        IF "ext" \in DOMAIN d /\ d.ext # <<>> THEN Ev(Inter(<<d.ty>> \o d.ext), env)
                        ELSE IF d.kind = "enum" THEN Ev(EnumRef(T.n), env)
                        ELSE T
    [] OTHER -> T

\* environments in which the declared bodies are evaluated too (so that M3 can unfold references)
EvEnv(env) == [i \in DOMAIN env |->
                IF env[i].kind \in {"enum", "const"} \/ "params" \in DOMAIN env[i] THEN env[i]
                ELSE [env[i] EXCEPT !.ty = Ev(env[i].ty, env)]]
=============================================================================

--------------------------- MODULE SemLevel ---------------------------
(***************************************************************************)
(* Set-theoretic reading of types at the level of the semantic engine      *)
(* (properties C05 - C07): null, absent and the other kinds are distinct,  *)
(* recursive types are read inductively (finite values only).              *)
(*   SMem(v, T, env, exact) - exact = TRUE : v carries declared properties *)
(*                            only (at every depth); FALSE : structural,   *)
(*                            extra properties allowed                     *)
(*   Wit(T, env, C, fuel)   - exact values of T over the abstraction C     *)
(*                            (mentioned literals + one fresh number and   *)
(*                            string, mentioned keys + one fresh key,      *)
(*                            lengths 0 .. maxlen)                         *)
(*   Sub(A, B, env)         - every exact value of A is a structural value *)
(*                            of B                                         *)
(***************************************************************************)
EXTENDS BeffSem, SequencesExt, FiniteSetsExt

TakeS(S, k) == IF Cardinality(S) <= k THEN S ELSE LET q == SetToSeq(S) IN {q[i] : i \in 1..k}

RECURSIVE SMem(_, _, _, _)
SObj(v, T, env, ex) ==
  /\ v.k = "obj"
  /\ \A i \in DOMAIN T.ps : IF HasKey(v, T.ps[i].key) THEN SMem(Get(v, T.ps[i].key), T.ps[i].ty, env, ex) ELSE T.ps[i].opt
  /\ \A key \in Keys(v) \ {T.ps[i].key : i \in DOMAIN T.ps} :
        IF T.ix # <<>> THEN SMem(VStr(key), T.ix[1].kt, env, FALSE) => SMem(Get(v, key), T.ix[1].vt, env, ex)
        ELSE TRUE
  /\ ex => \A key \in Keys(v) \ {T.ps[i].key : i \in DOMAIN T.ps} :
              T.ix # <<>> /\ SMem(VStr(key), T.ix[1].kt, env, FALSE)

SMem(v, T, env, ex) ==
  CASE T.t = "prim" -> (CASE T.p = "null" -> v.k = "null" [] T.p = "boolean" -> v.k = "bool" [] T.p = "number" -> v.k = "num"
                          [] T.p = "string" -> v.k = "str" [] T.p \in {"any", "unknown"} -> TRUE
                          \* the tags without proper subtypes (bigint, Date): one kind of value each
                          [] T.p = "bigint" -> v.k = "big" [] T.p = "Date" -> v.k = "date" [] OTHER -> FALSE)
    \* typed arrays are told apart by their constructor; Map / Set hold entries / members of the argument types
    [] T.t = "ta"    -> v.k = "ta" /\ v.c = T.c
    [] T.t = "map"   -> v.k = "map" /\ \A i \in DOMAIN v.es : SMem(v.es[i].mk, T.kt, env, ex) /\ SMem(v.es[i].mv, T.vt, env, ex)
    [] T.t = "set"   -> v.k = "set" /\ \A i \in DOMAIN v.es : SMem(v.es[i], T.e, env, ex)
    [] T.t = "lit"   -> v = T.v
    \* (template literal types are outside the fragment of C05 - C07; TsEval meets them as operands of Exclude / Extract)
    [] T.t = "tpl"   -> v.k = "str" /\ TplM3(v.s, T.parts, {}) = "T"
    [] T.t = "arr"   -> v.k = "arr" /\ \A i \in DOMAIN v.es : SMem(v.es[i], T.e, env, ex)
    [] T.t = "tuple" -> /\ v.k = "arr" /\ Len(v.es) >= Len(T.es) /\ (T.r = <<>> => Len(v.es) = Len(T.es))
                        /\ \A i \in DOMAIN T.es : SMem(v.es[i], T.es[i], env, ex)
                        /\ \A i \in (Len(T.es) + 1)..Len(v.es) : SMem(v.es[i], T.r[1], env, ex)
    [] T.t = "obj"   -> SObj(v, T, env, ex)
    [] T.t = "union" -> \E i \in DOMAIN T.ms : SMem(v, T.ms[i], env, ex)
    [] T.t = "inter" -> IF ex THEN \E b \in Branches(T, env) : SMem(v, b, env, ex)
                        ELSE \A i \in DOMAIN T.ms : SMem(v, T.ms[i], env, ex)
    [] T.t = "both"  -> SMem(v, T.a, env, ex) /\ SMem(v, T.b, env, ex)
    [] T.t = "ref"   -> SMem(v, Lookup(env, T.n), env, ex)
    [] T.t = "not"   -> ~SMem(v, T.a, env, FALSE)
    [] OTHER -> FALSE

\* ------------------------------------------------------------------ abstraction context
RECURSIVE LitsOf(_, _, _)
\* [nums, strs, keys, maxlen] mentioned in T (through references, each name once)
LitsOf(T, env, seen) ==
  LET EmpL == [nums |-> {}, strs |-> {}, keys |-> {}, maxlen |-> 0]
      UnL(a, b) == [nums |-> a.nums \cup b.nums, strs |-> a.strs \cup b.strs, keys |-> a.keys \cup b.keys,
                  maxlen |-> IF a.maxlen > b.maxlen THEN a.maxlen ELSE b.maxlen]
      RECURSIVE FoldU(_)
      FoldU(s) == IF s = <<>> THEN EmpL ELSE UnL(Head(s), FoldU(Tail(s)))
  IN CASE T.t = "lit" -> IF T.v.k = "num" THEN [EmpL EXCEPT !.nums = {T.v.n}] ELSE IF T.v.k = "str" THEN [EmpL EXCEPT !.strs = {T.v.s}] ELSE EmpL
       [] T.t = "arr" -> LitsOf(T.e, env, seen)
       [] T.t = "set" -> LitsOf(T.e, env, seen)
       \* a Map with two entries needs two distinct keys: a second fresh string and number wherever a Map is mentioned
       [] T.t = "map" -> UnL([EmpL EXCEPT !.strs = {"zy"}, !.nums = {"8"}], UnL(LitsOf(T.kt, env, seen), LitsOf(T.vt, env, seen)))
       [] T.t = "tuple" -> UnL([EmpL EXCEPT !.maxlen = Len(T.es)], FoldU([i \in DOMAIN (T.es \o T.r) |-> LitsOf((T.es \o T.r)[i], env, seen)]))
       [] T.t = "obj" -> UnL([EmpL EXCEPT !.keys = {T.ps[i].key : i \in DOMAIN T.ps}],
                           UnL(FoldU([i \in DOMAIN T.ps |-> LitsOf(T.ps[i].ty, env, seen)]),
                             FoldU([i \in DOMAIN T.ix |-> LitsOf(T.ix[i].vt, env, seen)])))
       [] T.t \in {"union", "inter"} -> FoldU([i \in DOMAIN T.ms |-> LitsOf(T.ms[i], env, seen)])
       [] T.t = "ref" -> IF T.n \in seen THEN EmpL ELSE LitsOf(Lookup(env, T.n), env, seen \cup {T.n})
       [] T.t = "not" -> LitsOf(T.a, env, seen)
       [] OTHER -> EmpL
Ctx(A, B, env) ==
  LET a == LitsOf(A, env, {})  b == LitsOf(B, env, {}) IN
  [nums |-> a.nums \cup b.nums \cup {"7"}, strs |-> a.strs \cup b.strs \cup {"zz"}, keys |-> a.keys \cup b.keys \cup {"zk", "zl"},       \* two fresh keys: values under an index signature may differ from key to key
   maxlen |-> (IF a.maxlen > b.maxlen THEN a.maxlen ELSE b.maxlen) + 1]

\* ------------------------------------------------------------------ witnesses
ABSENT == [k |-> "absent"]
\* all sequences choosing one element from each set of the sequence ss
RECURSIVE Prod(_)
Prod(ss) == IF ss = <<>> THEN {<<>>} ELSE {<<h>> \o t : h \in Head(ss), t \in Prod(Tail(ss))}
MkObj(keys, vals) == VObj(SelectSeq([i \in DOMAIN keys |-> P(keys[i], vals[i])], LAMBDA p : p.v # ABSENT))

RECURSIVE WitK(_, _, _, _, _)
\* K = [w |-> max witnesses per position, keys |-> max extra keys tried under an index signature]
WitK(T, env, C, fuel, K) ==
  CASE T.t = "prim" -> (CASE T.p = "null" -> {VNull} [] T.p = "boolean" -> {VBool(TRUE), VBool(FALSE)}
                          [] T.p = "number" -> {VNum(n) : n \in C.nums} [] T.p = "string" -> {VStr(s) : s \in C.strs}
                          [] T.p \in {"any", "unknown"} -> {VNull, VNum("7"), VStr("zz"), VObj(<<>>), VArr(<<>>), VBig("1"), VDate("0"),
                                                              VMap(<<>>), VSet(<<>>), VTa("Uint8Array", <<>>)}
                          [] T.p = "bigint" -> {VBig("1")} [] T.p = "Date" -> {VDate("0")}
                          [] OTHER -> {})
    [] T.t = "ta"  -> {VTa(T.c, <<>>)}
    \* Maps with no, one and two entries (two distinct keys), Sets with no, one and two (distinct) members
    [] T.t = "map" -> LET Wk == TakeS(WitK(T.kt, env, C, fuel, K), K.xw)  Wv == TakeS(WitK(T.vt, env, C, fuel, K), K.xw) IN
                      {VMap(<<>>)} \cup {VMap(<<E(k, w)>>) : k \in Wk, w \in Wv}
                      \cup {VMap(<<E(q[1], w1), E(q[2], w2)>>) : q \in {q \in Wk \X Wk : q[1] # q[2]}, w1 \in Wv, w2 \in Wv}
    [] T.t = "set" -> LET W == TakeS(WitK(T.e, env, C, fuel, K), K.w) IN
                      {VSet(<<>>)} \cup {VSet(<<w>>) : w \in W} \cup {VSet(<<q[1], q[2]>>) : q \in {q \in W \X W : q[1] # q[2]}}
    [] T.t = "lit" -> {T.v}
    [] T.t = "tpl" -> LET RECURSIVE One(_)
                          One(ps) == IF ps = <<>> THEN "" ELSE
                                     (CASE Head(ps).p = "lit" -> Head(ps).s [] Head(ps).p = "str" -> "q" [] Head(ps).p = "num" -> "1"
                                        [] Head(ps).p = "bool" -> "true" [] Head(ps).p = "oneof" -> Head(ps).ss[1] [] OTHER -> "") \o One(Tail(ps))
                      IN {VStr(One(T.parts))} \cup {VStr(x) : x \in {x \in C.strs : TplM3(x, T.parts, {}) = "T"}}
    [] T.t = "arr" -> LET W == TakeS(WitK(T.e, env, C, fuel, K), K.w) IN
                      {VArr(<<>>)} \cup {VArr(<<w>>) : w \in W} \cup {VArr(<<w1, w2>>) : w1 \in W, w2 \in W}
                      \cup (IF C.maxlen >= 3 THEN {VArr(<<w1, w2, w1>>) : w1 \in W, w2 \in W} ELSE {})
    [] T.t = "tuple" ->
         LET pre == Prod([i \in DOMAIN T.es |-> TakeS(WitK(T.es[i], env, C, fuel, K), K.w)])
             R == IF T.r = <<>> THEN {} ELSE TakeS(WitK(T.r[1], env, C, fuel, K), K.w)
         IN {VArr(p) : p \in pre} \cup {VArr(p \o <<r>>) : p \in pre, r \in R} \cup {VArr(p \o <<r1, r2>>) : p \in pre, r1 \in R, r2 \in R}
    [] T.t = "obj" ->
         LET declared == [i \in DOMAIN T.ps |-> T.ps[i].key]
             extraKeys == IF T.ix = <<>> THEN <<>> ELSE SetToSeq(TakeS({k \in C.keys : k \notin {declared[i] : i \in DOMAIN declared}
                                                                       /\ SMem(VStr(k), T.ix[1].kt, env, FALSE)}, K.keys))
             propSets == [i \in DOMAIN T.ps |-> TakeS(WitK(T.ps[i].ty, env, C, fuel, K), K.w) \cup (IF T.ps[i].opt THEN {ABSENT} ELSE {})]
             \* (bound once: TLC re-evaluates an operator application at every use, and this one is recursive)
             vw == IF extraKeys = <<>> THEN {} ELSE TakeS(WitK(T.ix[1].vt, env, C, fuel, K), K.xw)
             extraSets == [i \in DOMAIN extraKeys |-> vw \cup {ABSENT}]
         IN {MkObj(declared \o extraKeys, ch) : ch \in Prod(propSets \o extraSets)}
    [] T.t = "union" -> UNION {WitK(T.ms[i], env, C, fuel, K) : i \in DOMAIN T.ms}
    [] T.t = "inter" -> UNION {WitK(b, env, C, fuel, K) : b \in Branches(T, env)}
    [] T.t = "both"  -> {v \in WitK(T.a, env, C, fuel, K) \cup WitK(T.b, env, C, fuel, K) : SMem(v, T.a, env, TRUE) /\ SMem(v, T.b, env, TRUE)}
    [] T.t = "ref"   -> IF fuel = 0 THEN {} ELSE WitK(Lookup(env, T.n), env, C, fuel - 1, K)
    [] OTHER -> {}

WitFuel == 5
\* w: witnesses per position, keys: undeclared keys tried together under an index signature, xw: witnesses per such key
\* (the product over the undeclared keys is what grows; WitComplete checks that the larger caps give the same answers)
K0 == [w |-> 5, keys |-> 5, xw |-> 3]
K1 == [w |-> 7, keys |-> 6, xw |-> 4]
Wit(T, env, C, fuel) == WitK(T, env, C, fuel, K0)
SubK(A, B, env, K, fuel) == \A v \in WitK(A, env, Ctx(A, B, env), fuel, K) : SMem(v, B, env, FALSE)
Sub(A, B, env) == SubK(A, B, env, K0, WitFuel)
Same(A, B, env) == Sub(A, B, env) /\ Sub(B, A, env)
\* every witness is an exact member (sanity of Wit itself)
WitSound(A, env) == \A v \in Wit(A, env, Ctx(A, A, env), WitFuel) : SMem(v, A, env, TRUE)
\* completeness lemma, checked by brute force on the generated universe: larger caps and one more unfolding of recursive
\* definitions do not change the answer
WitComplete(A, B, env) == Sub(A, B, env) = SubK(A, B, env, K1, WitFuel + 1)
=============================================================================

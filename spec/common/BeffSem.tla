--------------------------- MODULE BeffSem ---------------------------
(***************************************************************************)
(* Reference semantics: membership of a value term in a TS-level type      *)
(* term, read under beff's runtime conventions (property C01), in default  *)
(* and strict (C11) mode.  Verdicts are three-valued: "X" marks pairs on   *)
(* which TypeScript's structural reading and a validator's conventions can *)
(* legitimately differ (never alarmed on).                                 *)
(*                                                                         *)
(* D is the set of *named deviations* switched on: each one documents a    *)
(* behaviour the implementation is known to have (known_findings.json).    *)
(* With D = {} this is the ideal semantics.                                *)
(***************************************************************************)
EXTENDS BeffTypes

Digits   == {"0", "1", "2", "3", "4", "5", "6", "7", "8", "9"}
NumChars == Digits \cup {".", "-", "+", "e", "E", " ", "x", "_"}
AllIn(s, C) == \A i \in 1..Len(s) : SubSeq(s, i, i) \in C
IsDigits(s) == Len(s) > 0 /\ AllIn(s, Digits)
\* uncontested decimal spellings: d+ and d+.d+
IsDec(s) == \/ IsDigits(s)
            \/ \E i \in 2..(Len(s) - 1) : /\ SubSeq(s, i, i) = "."
                                          /\ IsDigits(SubSeq(s, 1, i - 1))
                                          /\ IsDigits(SubSeq(s, i + 1, Len(s)))

\* TypeScript: a string s is a `${number}` iff s # "" and isFinite(+s).  Uncontested spellings beyond d+ and d+.d+ :
\* an optional sign, "d+.", ".d+", and a decimal exponent of at most two digits ("1e3", "-2.5E-1").  Hexadecimal / binary
\* spellings, surrounding white space and exponents that may overflow stay contested.
ChAt(s, i) == SubSeq(s, i, i)
IsUDec(s) == \/ IsDigits(s)
             \/ (Len(s) >= 2 /\ ChAt(s, Len(s)) = "." /\ IsDigits(SubSeq(s, 1, Len(s) - 1)))
             \/ (Len(s) >= 2 /\ ChAt(s, 1) = "." /\ IsDigits(SubSeq(s, 2, Len(s))))
             \/ IsDec(s)
IsMantissa(s) == IsUDec(s) \/ (Len(s) >= 2 /\ ChAt(s, 1) \in {"+", "-"} /\ IsUDec(SubSeq(s, 2, Len(s))))
IsExpDigits(s) == LET d == IF Len(s) >= 1 /\ ChAt(s, 1) \in {"+", "-"} THEN SubSeq(s, 2, Len(s)) ELSE s IN IsDigits(d) /\ Len(d) <= 2
IsNumSpelling(s) == \/ IsMantissa(s)
                    \/ \E i \in 2..(Len(s) - 1) : ChAt(s, i) \in {"e", "E"} /\ IsMantissa(SubSeq(s, 1, i - 1)) /\ IsExpDigits(SubSeq(s, i + 1, Len(s)))

\* deviation "tplNumberPlainDecimalOnly": the emitted regex for ${number} is (\d+(\.\d+)?) - signs, exponents, "1." and ".5" are rejected
PartM3(x, part, D) ==
  CASE part.p = "str"  -> "T"
    [] part.p = "lit"  -> B3(x = part.s)
    [] part.p = "bool" -> B3(x \in {"true", "false"})
    [] part.p = "oneof" -> B3(\E i \in DOMAIN part.ss : x = part.ss[i])
    [] part.p = "num"  -> IF IsDec(x) THEN "T"
                          ELSE IF x = "" THEN "F"
                          ELSE IF IsNumSpelling(x) THEN (IF "tplNumberPlainDecimalOnly" \in D THEN "F" ELSE "T")
                          ELSE IF AllIn(x, NumChars) \/ x \in {"NaN", "Infinity", "-Infinity"} THEN "X"
                          ELSE "F"

RECURSIVE TplM3(_, _, _)
TplM3(s, parts, D) ==
  IF parts = <<>> THEN B3(s = "")
  ELSE Or3({ And3({ PartM3(SubSeq(s, 1, i), Head(parts), D),
                    TplM3(SubSeq(s, i + 1, Len(s)), Tail(parts), D) }) : i \in 0..Len(s) })

\* deviation "tplUnanchored": the emitted regex is not anchored, any substring may match
TplMatch(s, parts, D) ==
  IF "tplUnanchored" \in D
  THEN Or3({ TplM3(SubSeq(s, i, j), parts, D) : i \in 1..(Len(s) + 1), j \in 0..Len(s) })
  ELSE TplM3(s, parts, D)

StrFmtOk(f, s) == CASE f = "f1" -> Len(s) >= 1 /\ SubSeq(s, 1, 1) = "a"
                    [] f = "f2" -> Len(s) <= 2
                    [] OTHER -> FALSE
NumFmtOk(f, n) == CASE f = "n1" -> n \in NumGE0
                    [] f = "n2" -> n \in NumInt
                    [] f = "f1" -> n \in NumGE1            \* a number format that shares its name with a string format
                    [] OTHER -> FALSE

PrimM3(v, p) ==
  CASE p = "string"  -> B3(v.k = "str")
    [] p = "number"  -> B3(v.k = "num")
    [] p = "numberkey" -> IF v.k = "num" THEN "X" ELSE "F"     \* the number part of keyof { [k: string]: T } (contested)
    [] p = "boolean" -> B3(v.k = "bool")
    \* beff's validators take null and undefined for each other; TypeScript does not: the crossed cases are contested
    [] p = "null" -> IF v.k = "null" THEN "T" ELSE IF IsNullish(v) THEN "X" ELSE "F"
    [] p \in {"undefined", "void"} -> IF v.k = "null" THEN "X" ELSE B3(IsNullish(v))
    [] p \in {"any", "unknown"} -> "T"
    [] p = "never"   -> "F"
    [] p = "bigint"  -> B3(v.k = "big")
    [] p = "Date"    -> B3(v.k = "date")
    [] p = "function" -> B3(v.k = "fn")                        \* any function type: only typeof is checked
    [] p = "object"  -> IF IsObjLike(v) THEN "T" ELSE IF v.k \in {"arr", "fn"} THEN "X" ELSE "F"

\* ------------------------------------------------------------------ normal form of unions / intersections
\* Branches(T): a set of union-free, intersection-free, ref-free-at-top types whose union is T.
\* Intersections of object types are merged into one object type (so that strict mode can talk
\* about "the keys declared at this position, counting all members of an intersection").
RECURSIVE M3(_, _, _, _, _), Branches(_, _), MeetFrom(_, _, _, _)

KeyStaticallyIn(key, o, env) == o.ix # <<>> /\ M3(VStr(key), o.ix[1].kt, env, {}, FALSE) = "T"
PropIdx(o, key) == CHOOSE i \in DOMAIN o.ps : o.ps[i].key = key
HasProp(o, key) == \E i \in DOMAIN o.ps : o.ps[i].key = key

\* a property of one member whose key also falls under the other member's index signature: when the key is present its
\* value - also a nullish one, which an optional property alone would admit - must be a value of the index signature too
\* (field nn: "a present nullish value needs the type check")
UnderIx(p, vt) == IF p.opt THEN [key |-> p.key, ty |-> Inter(<<Uni(<<p.ty, TNull, TUndef>>), vt>>), opt |-> TRUE, nn |-> TRUE]
                  ELSE Prop(p.key, Inter(<<p.ty, vt>>), FALSE)

MergeObj(a, b, env) ==
  LET fromA == [i \in DOMAIN a.ps |->
                 LET p == a.ps[i] IN
                 IF HasProp(b, p.key)
                 THEN LET q == b.ps[PropIdx(b, p.key)] IN Prop(p.key, Inter(<<p.ty, q.ty>>), p.opt /\ q.opt)
                 ELSE IF KeyStaticallyIn(p.key, b, env) THEN UnderIx(p, b.ix[1].vt)
                 ELSE p]
      onlyB == SelectSeq(b.ps, LAMBDA q : ~HasProp(a, q.key))
      fromB == [i \in DOMAIN onlyB |->
                 LET q == onlyB[i] IN
                 IF KeyStaticallyIn(q.key, a, env) THEN UnderIx(q, a.ix[1].vt) ELSE q]
      ix == IF a.ix = <<>> THEN b.ix ELSE IF b.ix = <<>> THEN a.ix
            ELSE <<Ix(Inter(<<a.ix[1].kt, b.ix[1].kt>>), Inter(<<a.ix[1].vt, b.ix[1].vt>>))>>
  IN Obj(fromA \o fromB, ix)

Meet(a, b, env) == IF a.t = "obj" /\ b.t = "obj" THEN MergeObj(a, b, env)
                   ELSE IF a = b THEN a
                   ELSE [t |-> "both", a |-> a, b |-> b]

MeetFrom(acc, ms, i, env) ==
  IF i > Len(ms) THEN acc
  ELSE MeetFrom({Meet(a, b, env) : a \in acc, b \in Branches(ms[i], env)}, ms, i + 1, env)

Branches(T, env) ==
  CASE T.t = "ref"   -> Branches(Lookup(env, T.n), env)
    [] T.t = "union" -> UNION {Branches(T.ms[i], env) : i \in DOMAIN T.ms}
    [] T.t = "inter" -> IF T.ms = <<>> THEN {TAny} ELSE MeetFrom(Branches(T.ms[1], env), T.ms, 2, env)
    [] T.t = "deco"  -> Branches(T.a, env)
    [] T.t = "app"   -> Branches(Instantiate(env, T.n, T.args), env)
    [] OTHER -> {T}

\* ast/runtype.rs all_of: literal object members without index signature are merged into one object
RECURSIVE Undeco(_)
Undeco(T) == IF T.t = "deco" THEN Undeco(T.a) ELSE T
MergedAtCompileTime(T) == \A i \in DOMAIN T.ms : Undeco(T.ms[i]).t = "obj" /\ Undeco(T.ms[i]).ix = <<>>

\* numeric literals (as written) whose truncation to 9 fractional digits changes them
InexactFractions == {"3.14159"}

\* ------------------------------------------------------------------ membership
ObjM3c(v, T, env, D, s) ==
  IF ~IsObjLike(v)
  THEN IF IsNullish(v) THEN "F"
       ELSE IF \A i \in DOMAIN T.ps : T.ps[i].opt THEN "X" ELSE "F"
  ELSE
    LET declared == {T.ps[i].key : i \in DOMAIN T.ps}
        propV == { LET p == T.ps[i]  g == Get(v, p.key) IN
                   IF p.opt /\ "nn" \in DOMAIN p THEN (IF HasKey(v, p.key) THEN M3(g, p.ty, env, D, s) ELSE "T")
                   \* an optional property may be absent or undefined.  beff's validators also take null for it, TypeScript does not:
                   \* a present null that the property's type does not admit is contested
                   ELSE IF p.opt THEN (IF g.k = "null" /\ M3(g, p.ty, env, D, s) = "F" THEN "X"
                                       ELSE Or3({B3(IsNullish(g)), M3(g, p.ty, env, D, s)}))
                   ELSE IF HasKey(v, p.key) THEN M3(g, p.ty, env, D, s)
                   ELSE IF M3(VUndef, p.ty, env, D, s) = "F" THEN "F" ELSE "X"   \* required, absent, undefined allowed: contested
                 : i \in DOMAIN T.ps }
        extra == Keys(v) \ declared
        extraV == { IF T.ix = <<>> THEN (IF s THEN "F" ELSE "T")
                    ELSE LET km == M3(VStr(key), T.ix[1].kt, env, D, s)
                             vm == M3(Get(v, key), T.ix[1].vt, env, D, s)
                         IN IF km = "T" THEN vm
                            ELSE IF km = "X" THEN "X"
                            ELSE IF s \/ "ixKeyMismatchRejects" \in D THEN "F" ELSE "T"
                  : key \in extra }
    IN And3(propV \cup extraV)

\* an object all of whose properties are inherited from its prototype (class "inh"): TypeScript gives it the structural type of
\* those properties, beff's validators read own properties only - wherever the two readings differ the verdict is contested
ObjM3(v, T, env, D, s) ==
  IF v.k = "obj" /\ v.c = "inh"
  THEN LET a == ObjM3c(v, T, env, D, s)  b == ObjM3c(VObj(<<>>), T, env, D, s) IN IF a = b THEN a ELSE "X"
  ELSE ObjM3c(v, T, env, D, s)

TupM3(v, T, env, D, s) ==
  IF v.k # "arr" THEN "F"
  ELSE LET n == Len(T.es)  m == Len(v.es) IN
       IF T.r = <<>> /\ m > n THEN "F"
       ELSE And3( { IF i <= m THEN M3(v.es[i], T.es[i], env, D, s)
                    ELSE IF M3(VUndef, T.es[i], env, D, s) = "F" THEN "F" ELSE "X"   \* missing element that may be undefined: contested
                  : i \in 1..n }
                  \cup { M3(v.es[i], T.r[1], env, D, s) : i \in (n + 1)..m } )

M3(v, T, env, D, s) ==
  CASE v.k = "hole"  -> M3(VUndef, T, env, D, s)          \* a missing index of a sparse array reads as undefined
    [] T.t = "prim"  -> PrimM3(v, T.p)
    \* deviation "fractionalLiteralTruncated": the compiler keeps 9 fractional digits by truncation, so a numeric literal type whose
    \* fraction is not exact after `* 1e9` (3.14159 -> 3.141589999) is compiled to another number and rejects its own value
    [] T.t = "lit"   -> IF "fractionalLiteralTruncated" \in D /\ T.v.k = "num" /\ T.v.n \in InexactFractions /\ v = T.v THEN "F" ELSE B3(v = T.v)
    [] T.t = "tpl"   -> IF v.k = "str" THEN TplMatch(v.s, T.parts, D) ELSE "F"
    [] T.t = "sfmt"  -> B3(v.k = "str" /\ \A i \in DOMAIN T.fs : StrFmtOk(T.fs[i], v.s))
    [] T.t = "nfmt"  -> B3(v.k = "num" /\ \A i \in DOMAIN T.fs : NumFmtOk(T.fs[i], v.n))
    [] T.t = "arr"   -> IF v.k = "arr" THEN And3({M3(v.es[i], T.e, env, D, s) : i \in DOMAIN v.es}) ELSE "F"
    [] T.t = "tuple" -> TupM3(v, T, env, D, s)
    [] T.t = "obj"   -> ObjM3(v, T, env, D, s)
    [] T.t = "map"   -> IF v.k = "map"
                        THEN And3({And3({M3(v.es[i].mk, T.kt, env, D, s), M3(v.es[i].mv, T.vt, env, D, s)}) : i \in DOMAIN v.es})
                        ELSE "F"
    [] T.t = "set"   -> IF v.k = "set" THEN And3({M3(v.es[i], T.e, env, D, s) : i \in DOMAIN v.es}) ELSE "F"
    [] T.t = "ta"    -> B3(v.k = "ta" /\ v.c = T.c)
    [] T.t = "ref"   -> M3(v, Lookup(env, T.n), env, D, s)
    [] T.t = "deco"  -> M3(v, T.a, env, D, s)
    [] T.t = "app"   -> M3(v, Instantiate(env, T.n, T.args), env, D, s)
    [] T.t = "union" -> Or3({M3(v, T.ms[i], env, D, s) : i \in DOMAIN T.ms})
    [] T.t = "both"  -> And3({M3(v, T.a, env, D, s), M3(v, T.b, env, D, s)})
    [] T.t = "inter" ->
         IF s /\ "strictPerInterMember" \in D /\ ~MergedAtCompileTime(T)
         THEN \* deviation: an intersection that is not merged at compile time (a member is a named reference, a
              \* generic instance, has an index signature ...) is judged member by member with the strict flag
              And3({M3(v, T.ms[i], env, D, s) : i \in DOMAIN T.ms})
         ELSE
         IF s THEN Or3({M3(v, b, env, D, s) : b \in Branches(T, env)})
         ELSE LET plain == And3({M3(v, T.ms[i], env, D, s) : i \in DOMAIN T.ms}) IN
              IF "allOfNeedsObject" \in D /\ v.k \notin {"obj", "date", "map", "set", "ta", "arr", "null"} /\ T.ms # <<>>
              THEN "F" ELSE plain

Mem(v, T, env)       == M3(v, T, env, {}, FALSE)
StrictMem(v, T, env) == M3(v, T, env, {}, TRUE)

\* Classification of an observed boolean outcome against the reference, given the set Open of
\* deviations listed as open known findings.  Returns "ok", a deviation name, or "NEW".
Classify(o, v, T, env, s, Open) ==
  IF Agrees(o, M3(v, T, env, {}, s)) THEN "ok"
  ELSE IF \E d \in Open : Agrees(o, M3(v, T, env, {d}, s))
       THEN CHOOSE d \in Open : Agrees(o, M3(v, T, env, {d}, s))
       ELSE IF Agrees(o, M3(v, T, env, Open, s)) THEN "several-known"
       ELSE "NEW"
=============================================================================

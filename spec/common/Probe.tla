--------------------------- MODULE Probe ---------------------------
(***************************************************************************)
(* Type-directed probe values.  Values are never enumerated wholesale;     *)
(* Cand(T) is built from the shape of T: members, nullish values, wrong-   *)
(* kind atoms and near misses at every position, one deviation at a time   *)
(* from a base member, plus structural variations (missing / extra /       *)
(* hostile keys, lengths 0..n+1).  Probe(T) adds a fixed atom pool.        *)
(***************************************************************************)
EXTENDS BeffSem, SequencesExt, FiniteSetsExt

\* deterministic "first k elements" of a set (TLC keeps sets in a canonical order)
Take(S, k) == IF Cardinality(S) <= k THEN S
              ELSE LET q == SetToSeq(S) IN {q[i] : i \in 1..k}

AtomPool ==
  { VNull, VUndef, VBool(TRUE), VBool(FALSE), VNum("0"), VNum("1"), VNum("-1"), VNum("0.5"), VNum("NaN"),
    VStr(""), VStr("a"), VStr("b"), VBig("1"), VDate("0"), VDate("invalid"), VFn,
    VObj(<<>>), VArr(<<>>), VMap(<<>>), VSet(<<>>), VTa("Uint8Array", <<>>), VObjC("null", <<>>),
    VObjC("inst", <<>>), VObj(<<P("__proto__", VStr("a"))>>), VObj(<<P("constructor", VStr("a"))>>) }

SmallAtoms == { VNull, VUndef, VNum("1"), VStr("a"), VBool(TRUE), VObj(<<>>), VArr(<<>>) }

PrimCand(p) ==
  CASE p = "string"  -> {VStr("a"), VStr("zz"), VStr(""), VNum("1"), VNull}
    [] p = "number"  -> {VNum("1"), VNum("0.5"), VNum("NaN"), VStr("1"), VNull}
    [] p = "numberkey" -> {VNum("1"), VStr("1"), VNull}
    [] p = "boolean" -> {VBool(TRUE), VBool(FALSE), VNum("0"), VStr("true"), VUndef}
    [] p \in {"null", "undefined", "void"} -> {VNull, VUndef, VNum("0"), VStr(""), VBool(FALSE)}
    [] p \in {"any", "unknown"} -> {VNum("1"), VNull, VObj(<<>>)}
    [] p = "never"   -> {VNull, VNum("1")}
    [] p = "bigint"  -> {VBig("1"), VNum("1"), VStr("1"), VNull}
    [] p = "Date"    -> {VDate("0"), VDate("invalid"), VNum("0"), VStr("1970-01-01"), VObj(<<>>), VNull}
    [] p = "function" -> {VFn, VObj(<<>>), VStr("a"), VNull}
    [] p = "object"  -> {VObj(<<>>), VObj(<<P("a", VNum("1"))>>), VDate("0"), VArr(<<>>), VFn, VStr("a"), VNull}

NearMiss(v) ==
  \* hostile strings: names of Object.prototype members (discriminator values, keys)
  CASE v.k = "str"  -> {VStr(v.s \o "x"), VStr(""), VNum("1"), VNull, VStr("constructor"), VStr("__proto__"), VStr("toString")}
    [] v.k = "num"  -> {VNum(IF v.n = "1" THEN "2" ELSE "1"), VStr(v.n), VNull, VBool(TRUE)}
    [] v.k = "bool" -> {VBool(~v.b), VNum(IF v.b THEN "1" ELSE "0"), VStr(IF v.b THEN "true" ELSE "false"), VUndef}
    [] OTHER -> {VNull}

PartSamples(part) ==
  CASE part.p = "str"   -> {"", "q", "a.b", "l1\nl2"}      \* ${string} spans line breaks
    [] part.p = "lit"   -> {part.s}
    [] part.p = "bool"  -> {"true", "false", "True"}
    [] part.p = "oneof" -> {part.ss[i] : i \in DOMAIN part.ss} \cup {"zz"}
    [] part.p = "num"   -> {"1", "12", "0.5", "-1", "1e3", "1.", ".5", "+1", "-2.5E-1", "0x10", "", "x"}

RECURSIVE TplStrings(_)
TplStrings(parts) ==
  IF parts = <<>> THEN {""}
  ELSE {a \o b : a \in PartSamples(Head(parts)), b \in Take(TplStrings(Tail(parts)), 12)}

TplCand(parts) ==
  LET base == Take(TplStrings(parts), 24) IN
  {VStr(s) : s \in base}
  \cup {VStr("zz" \o s \o "zz") : s \in Take(base, 4)}
  \cup {VStr("zz" \o s) : s \in Take(base, 3)}
  \cup {VStr(s \o "zz") : s \in Take(base, 3)}
  \cup {VStr(s \o s) : s \in Take(base, 3)}
  \cup {VNum("1"), VNull, VStr("")}

RECURSIVE Cand(_, _, _)

\* a few exact members of T (strict members), used as the base of one-at-a-time variations
Members(T, env, f) == Take({c \in Cand(T, env, f) : M3(c, T, env, {}, TRUE) = "T"}, 2)

SetAt(ps, i, p) == [ps EXCEPT ![i] = p]
DropAt(ps, i)   == SubSeq(ps, 1, i - 1) \o SubSeq(ps, i + 1, Len(ps))

ObjCand(T, env, f) ==
  LET n == Len(T.ps)
      \* base objects: every declared prop present with a member (or absent when no member exists)
      mem(i) == Members(T.ps[i].ty, env, f)
      base == IF \A i \in 1..n : mem(i) # {}
              THEN LET b1 == [i \in 1..n |-> P(T.ps[i].key, CHOOSE m \in mem(i) : TRUE)] IN {b1}
              ELSE {}
      \* several members of the index value type (one member cannot tell `string` from a set of literals that contains it)
      ixMem == IF T.ix = <<>> THEN {} ELSE Take({c \in Cand(T.ix[1].vt, env, f) : M3(c, T.ix[1].vt, env, {}, TRUE) = "T"}, 3)
      ixBad == IF T.ix = <<>> THEN {} ELSE Take({c \in Cand(T.ix[1].vt, env, f) : M3(c, T.ix[1].vt, env, {}, FALSE) = "F"}, 2)
      ixKeys == IF T.ix = <<>> THEN {} ELSE
                 Take({c.s : c \in {c \in Cand(T.ix[1].kt, env, f) : c.k = "str" /\ c.s \notin {T.ps[i].key : i \in 1..n}}}, 3)
      vary == UNION { UNION { { VObj(SetAt(b, i, P(T.ps[i].key, c))) : c \in Take(Cand(T.ps[i].ty, env, f), 8) }
                              \cup { VObj(DropAt(b, i)) }
                            : i \in 1..n } : b \in base }
      \* an extra key is only added when the object does not have it yet (a value term has every key once)
      Plus(b, k, x) == IF \E j \in DOMAIN b : b[j].key = k THEN {} ELSE {VObj(b \o <<P(k, x)>>)}
      extras == UNION { Plus(b, "zz", VNum("1")) \cup Plus(b, "zz", VUndef)
                        \cup (IF \E j \in DOMAIN b : b[j].key = "zz" THEN {} ELSE {VObj(<<P("zz", VStr("a"))>> \o b)})
                        \cup Plus(b, "__proto__", VStr("a")) \cup Plus(b, "constructor", VNum("1")) \cup Plus(b, "toString", VStr("a"))
                        \cup { VObjC("null", b), VObjC("inst", b), VObj(Reverse(b)) }
                        \* objects whose prototype is not Object.prototype that also carry an undeclared key
                        \cup (IF \E j \in DOMAIN b : b[j].key = "zz" THEN {} ELSE { VObjC("null", b \o <<P("zz", VNum("1"))>>), VObjC("inst", <<P("zz", VStr("a"))>> \o b) })
                        \* every property inherited from the prototype (TypeScript: the same structural type)
                        \cup (IF b # <<>> THEN { VObjC("inh", b) } ELSE {})
                        \cup { VObj(b \o <<P(key, m)>>) : key \in ixKeys, m \in ixMem \cup ixBad }
                      : b \in base }
  IN { VObj(b) : b \in base } \cup vary \cup extras
     \cup { VObj(<<>>), VArr(<<>>), VNull, VStr("a"), VDate("0"), VMap(<<>>), VFn }

TupCand(T, env, f) ==
  LET n == Len(T.es)
      mem(i) == Members(T.es[i], env, f)
      base == IF \A i \in 1..n : mem(i) # {} THEN {[i \in 1..n |-> CHOOSE m \in mem(i) : TRUE]} ELSE {}
      restC == IF T.r = <<>> THEN {VNum("1"), VUndef} ELSE Take(Cand(T.r[1], env, f), 5)
  IN { VArr(b) : b \in base }
     \cup UNION { UNION { { VArr([b EXCEPT ![i] = c]) : c \in Take(Cand(T.es[i], env, f), 6) } : i \in 1..n } : b \in base }
     \cup UNION { { VArr(SubSeq(b, 1, n - 1)) } \cup { VArr(b \o <<c>>) : c \in restC }
                  \cup { VArr(b \o <<c, c>>) : c \in Take(restC, 2) } : b \in {b \in base : n >= 1} }
     \cup UNION { { VArr(<<c>>) : c \in restC } : b \in {b \in base : n = 0} }
     \cup { VArr(<<>>), VObj(<<>>), VNull, VStr("a") }

Cand(T, env, f) ==
  CASE T.t = "prim"  -> PrimCand(T.p)
    [] T.t = "lit"   -> {T.v} \cup NearMiss(T.v)
    [] T.t = "tpl"   -> TplCand(T.parts)
    [] T.t = "sfmt"  -> {VStr("a"), VStr("ab"), VStr("abc"), VStr("b"), VStr(""), VNum("1"), VNull}
    [] T.t = "nfmt"  -> {VNum("1"), VNum("0.5"), VNum("-1"), VNum("NaN"), VNum("0"), VStr("1"), VNull}
    [] T.t = "arr"   -> LET c == Take(Cand(T.e, env, f), 6)  m == Take(Members(T.e, env, f), 1) IN
                        {VArr(<<>>), VObj(<<>>), VNull, VStr("a"), VObj(<<P("0", VNum("1"))>>)}
                        \cup {VArr(<<x>>) : x \in c} \cup {VArr(<<x, y>>) : x \in m, y \in c}
    [] T.t = "tuple" -> TupCand(T, env, f)
    [] T.t = "obj"   -> ObjCand(T, env, f)
    [] T.t = "map"   -> LET kc == Take(Cand(T.kt, env, f), 4)  vc == Take(Cand(T.vt, env, f), 4) IN
                        {VMap(<<>>), VObj(<<>>), VArr(<<>>), VSet(<<>>), VNull}
                        \cup {VMap(<<E(x, y)>>) : x \in kc, y \in vc}
    [] T.t = "set"   -> LET c == Take(Cand(T.e, env, f), 6) IN
                        {VSet(<<>>), VArr(<<>>), VMap(<<>>), VObj(<<>>), VNull} \cup {VSet(<<x>>) : x \in c}
                        \cup {VSet(<<pr[1], pr[2]>>) : pr \in {pr \in Take(c, 2) \X Take(c, 3) : pr[1] # pr[2]}}
    [] T.t = "ta"    -> {VTa(T.c, <<>>), VTa(T.c, <<1, 2>>),
                         VTa(IF T.c = "Uint8Array" THEN "Int8Array" ELSE "Uint8Array", <<1>>),
                         VArr(<<VNum("1")>>), VObj(<<>>), VNull}
    [] T.t = "ref"   -> IF f = 0 THEN {VNull, VObj(<<>>), VArr(<<>>), VStr("a"), VNum("1")}
                        ELSE Cand(Lookup(env, T.n), env, f - 1)
    [] T.t = "deco"  -> Cand(T.a, env, f)
    [] T.t = "app"   -> IF f = 0 THEN {VNull, VObj(<<>>), VArr(<<>>), VStr("a"), VNum("1")}
                        ELSE Cand(Instantiate(env, T.n, T.args), env, f - 1)
    [] T.t = "union" -> UNION {Take(Cand(T.ms[i], env, f), 12) : i \in DOMAIN T.ms}
    [] T.t = "both"  -> Cand(T.a, env, f) \cup Cand(T.b, env, f)
    [] T.t = "inter" -> UNION {Take(Cand(T.ms[i], env, f), 10) : i \in DOMAIN T.ms}
                        \cup UNION {Take(Cand(b, env, f), 16) : b \in Take(Branches(T, env), 3)}

\* one pool for all programs (C13 separation, C08/C09/C15 comparisons)
CommonPool ==
  AtomPool \cup
  { VNum("2"), VStr("x"), VStr("y"), VStr("x1"), VStr("ab"), VArr(<<VNum("1")>>), VArr(<<VStr("a")>>), VArr(<<VStr("a"), VNum("1")>>),
    VArr(<<VNum("1"), VStr("a")>>), VArr(<<VNull>>), VArr(<<VArr(<<>>)>>), VArr(<<VObj(<<>>)>>),
    VObj(<<P("a", VStr("a"))>>), VObj(<<P("a", VNum("1"))>>), VObj(<<P("a", VNull)>>), VObj(<<P("b", VNum("1"))>>),
    VObj(<<P("a", VStr("a")), P("b", VNum("1"))>>), VObj(<<P("a", VNum("1")), P("b", VStr("a"))>>),
    VObj(<<P("a", VStr("a")), P("zz", VNum("1"))>>), VObj(<<P("a", VObj(<<P("a", VStr("a"))>>))>>),
    VObj(<<P("a", VArr(<<>>))>>), VObj(<<P("k", VStr("x")), P("a", VStr("a"))>>), VObj(<<P("k", VStr("y")), P("b", VNum("1"))>>),
    VObj(<<P("k", VStr("x")), P("b", VNum("1"))>>), VObj(<<P("k", VStr("z"))>>), VObj(<<P("k", VStr("constructor"))>>),
    VObj(<<P("v", VNum("1"))>>), VObj(<<P("v", VStr("a")), P("next", VObj(<<P("v", VStr("a"))>>))>>),
    VObj(<<P("v", VStr("a")), P("next", VObj(<<P("v", VNum("1"))>>))>>),
    VObj(<<P("x1", VNum("1"))>>), VObj(<<P("q", VStr("a"))>>),
    VMap(<<E(VStr("a"), VNum("1"))>>), VMap(<<E(VNum("1"), VStr("a"))>>), VSet(<<VNum("1")>>), VSet(<<VStr("a")>>),
    VTa("Uint8Array", <<1>>), VTa("Float64Array", <<1>>), VStr("true"), VStr("1px"), VStr("a.b"), VStr("a-b"), VStr("abc"), VStr("ac") }

\* Hostile probes are never subject to the cap: objects whose string-literal-typed properties (discriminators) carry the
\* names of Object.prototype members, at any depth (C03: "discriminator values __proto__, constructor, toString").
HostileStrs == {"constructor", "__proto__", "toString", "hasOwnProperty"}
HasStrLit(ty, env) == \E b \in Branches(ty, env) : b.t = "lit" /\ b.v.k = "str"
RECURSIVE Hostile(_, _, _)
Hostile(T, env, f) ==
  CASE T.t = "obj" ->
         LET n == Len(T.ps)
             mem(i) == Members(T.ps[i].ty, env, f)
             base == IF \A i \in 1..n : mem(i) # {} THEN {[i \in 1..n |-> P(T.ps[i].key, CHOOSE m \in mem(i) : TRUE)]} ELSE {}
         IN UNION { UNION { (IF HasStrLit(T.ps[i].ty, env) THEN { VObj(SetAt(b, i, P(T.ps[i].key, VStr(h)))) : h \in HostileStrs } ELSE {})
                            \cup { VObj(SetAt(b, i, P(T.ps[i].key, hv))) : hv \in Hostile(T.ps[i].ty, env, f) }
                          : i \in 1..n } : b \in base }
    [] T.t = "union" -> UNION {Hostile(T.ms[i], env, f) : i \in DOMAIN T.ms}
    [] T.t = "inter" -> UNION {Hostile(b, env, f) : b \in Branches(T, env)}
    [] T.t = "arr"   -> {VArr(<<h>>) : h \in Hostile(T.e, env, f)}
    [] T.t = "ref"   -> IF f = 0 THEN {} ELSE Hostile(Lookup(env, T.n), env, f - 1)
    [] T.t = "deco"  -> Hostile(T.a, env, f)
    [] OTHER -> {}

\* Single deep faults are never subject to the cap either: values that are members of T except for ONE fault at some position,
\* at any depth, placed after a valid sibling where the container has several entries (second element of an array, second
\* entry of a Map / Set, an index-signature key after the declared ones), plus one double fault per object (first and last
\* property).  They exercise the path bookkeeping of reportDecodeError / parse (C12, C03) at positions the capped
\* one-at-a-time variations of Cand may not reach.
Bad1(T, env, f) == Take({c \in Cand(T, env, f) : M3(c, T, env, {}, FALSE) = "F"}, 1)
Mem1(T, env, f) == Take(Members(T, env, f), 1)
RECURSIVE Faults(_, _, _)
Faults(T, env, f) ==
  CASE T.t \in {"prim", "lit", "tpl", "sfmt", "nfmt", "ta"} -> Bad1(T, env, f)
    [] T.t = "arr"   -> {VArr(<<x>>) : x \in Faults(T.e, env, f)}
                        \cup {VArr(<<m, x>>) : m \in Mem1(T.e, env, f), x \in Faults(T.e, env, f)}
                        \* a sparse array: the missing index reads as undefined, which the element type rejects
                        \cup (IF M3(VUndef, T.e, env, {}, FALSE) = "F" THEN {VArr(<<m, VHole, m>>) : m \in Mem1(T.e, env, f)} \cup {VArr(<<VHole>>)} ELSE {})
    [] T.t = "tuple" -> LET n == Len(T.es)
                            base == IF \A i \in 1..n : Mem1(T.es[i], env, f) # {}
                                    THEN {[i \in 1..n |-> CHOOSE m \in Mem1(T.es[i], env, f) : TRUE]} ELSE {}
                        IN UNION { UNION { {VArr([b EXCEPT ![i] = x]) : x \in Faults(T.es[i], env, f)} : i \in 1..n } : b \in base }
                           \cup (IF T.r = <<>> THEN {} ELSE
                                 UNION { {VArr(b \o <<m, x>>) : m \in Mem1(T.r[1], env, f), x \in Faults(T.r[1], env, f)} : b \in base })
    [] T.t = "obj"   -> LET n == Len(T.ps)
                            base == IF \A i \in 1..n : Mem1(T.ps[i].ty, env, f) # {}
                                    THEN {[i \in 1..n |-> P(T.ps[i].key, CHOOSE m \in Mem1(T.ps[i].ty, env, f) : TRUE)]} ELSE {}
                            fl(i) == Faults(T.ps[i].ty, env, f)
                        IN UNION { UNION { {VObj(SetAt(b, i, P(T.ps[i].key, x))) : x \in fl(i)} : i \in 1..n } : b \in base }
                           \cup UNION { {VObj(SetAt(SetAt(b, 1, P(T.ps[1].key, x)), n, P(T.ps[n].key, y))) : x \in Take(fl(1), 1), y \in Take(fl(n), 1)}
                                         : b \in {b \in base : n >= 2} }
                           \cup (IF T.ix = <<>> THEN {} ELSE
                                 UNION { {VObj(b \o <<P("zk1", m), P("zk2", x)>>) : m \in Mem1(T.ix[1].vt, env, f), x \in Faults(T.ix[1].vt, env, f)}
                                         : b \in base })
    [] T.t = "map"   -> {VMap(<<E(VStr("k1"), m), E(VStr("k2"), x)>>) : m \in Mem1(T.vt, env, f), x \in Faults(T.vt, env, f)}
                        \cup {VMap(<<E(VStr("k1"), x), E(VStr("k2"), m)>>) : m \in Mem1(T.vt, env, f), x \in Faults(T.vt, env, f)}
                        \cup {VMap(<<E(km, m), E(x, m)>>) : km \in Mem1(T.kt, env, f), m \in Mem1(T.vt, env, f), x \in Faults(T.kt, env, f)}
    [] T.t = "set"   -> {VSet(<<m, x>>) : m \in Mem1(T.e, env, f), x \in Faults(T.e, env, f)}
    [] T.t = "union" -> {x \in UNION {Faults(T.ms[i], env, f) : i \in DOMAIN T.ms} : M3(x, T, env, {}, FALSE) = "F"}
    [] T.t = "inter" -> UNION {Faults(b, env, f) : b \in Take(Branches(T, env), 3)}
                        \* values of some member that are not values of every member ("ellipse" for ("circle" | "ellipse") & "circle")
                        \cup Take({x \in UNION {Take(Cand(T.ms[i], env, f), 8) : i \in DOMAIN T.ms} :
                                    M3(x, T, env, {}, FALSE) = "F" /\ \E i \in DOMAIN T.ms : M3(x, T.ms[i], env, {}, FALSE) = "T"}, 3)
    [] T.t = "ref"   -> IF f = 0 THEN {} ELSE Faults(Lookup(env, T.n), env, f - 1)
    [] T.t = "deco"  -> Faults(T.a, env, f)
    [] T.t = "app"   -> IF f = 0 THEN {} ELSE Faults(Instantiate(env, T.n, T.args), env, f - 1)
    [] OTHER -> {}

\* Rich members, never capped: members of T that use what the type allows beyond the minimum - an undeclared key admitted by
\* the index signature, optional properties present and absent, containers with two entries - for every member of a union.
RECURSIVE Rich(_, _, _)
Rich(T, env, f) ==
  CASE T.t = "obj" ->
         LET n == Len(T.ps)
             \* a rich member of the property's type where there is one, else a plain member
             val(i) == LET rm == Take(Rich(T.ps[i].ty, env, f), 1) IN IF rm # {} THEN rm ELSE Mem1(T.ps[i].ty, env, f)
             ok == \A i \in 1..n : val(i) # {}
             full == [i \in 1..n |-> P(T.ps[i].key, CHOOSE m \in val(i) : TRUE)]
             req == SelectSeq(full, LAMBDA p : \E i \in 1..n : T.ps[i].key = p.key /\ ~T.ps[i].opt)
         IN IF ~ok THEN {} ELSE
            {VObj(full), VObj(req)}
            \cup (IF T.ix = <<>> THEN {} ELSE {VObj(full \o <<P("zk1", m)>>) : m \in Mem1(T.ix[1].vt, env, f)}
                                              \cup {VObj(req \o <<P("zk1", m), P("zk2", m)>>) : m \in Mem1(T.ix[1].vt, env, f)})
    [] T.t = "arr"   -> {VArr(<<m, m>>) : m \in Take(Rich(T.e, env, f), 1) \cup Mem1(T.e, env, f)}
    [] T.t = "tuple" -> LET n == Len(T.es)
                            val(i) == Take(Rich(T.es[i], env, f), 1) \cup Mem1(T.es[i], env, f)
                        IN IF \E i \in 1..n : val(i) = {} THEN {}
                           ELSE LET b == [i \in 1..n |-> CHOOSE m \in val(i) : TRUE] IN
                                {VArr(b)} \cup (IF T.r = <<>> THEN {} ELSE {VArr(b \o <<m, m>>) : m \in Mem1(T.r[1], env, f)})
    [] T.t = "map"   -> {VMap(<<E(VStr("k1"), m), E(VStr("k2"), m)>>) : m \in Mem1(T.vt, env, f)}
    [] T.t = "set"   -> {VSet(<<m>>) : m \in Mem1(T.e, env, f)}
    [] T.t = "union" -> UNION {Rich(T.ms[i], env, f) : i \in DOMAIN T.ms}
    [] T.t = "inter" -> {x \in UNION {Rich(b, env, f) : b \in Take(Branches(T, env), 3)} : M3(x, T, env, {}, FALSE) = "T"}
    [] T.t = "ref"   -> IF f = 0 THEN {} ELSE Rich(Lookup(env, T.n), env, f - 1)
    [] T.t = "deco"  -> Rich(T.a, env, f)
    [] T.t = "app"   -> IF f = 0 THEN {} ELSE Rich(Instantiate(env, T.n, T.args), env, f - 1)
    [] OTHER -> Mem1(T, env, f)

\* Foreign objects, never capped: accepted values re-dressed as objects whose prototype is not Object.prototype (no prototype,
\* a class instance) that also carry an undeclared key - at the root and one level below it.  Whatever the runtime does for such
\* objects (C03: parse must still project them, C11: the undeclared key must still be seen) is asked for every type.
HasZz(v) == \E i \in DOMAIN v.ps : v.ps[i].key = "zz"
Redress(v, c) == IF v.k = "obj" /\ v.c = "plain" /\ ~HasZz(v) THEN {VObjC(c, v.ps \o <<P("zz", VNum("1"))>>)} ELSE {}
Foreign(T, env, f) ==
  LET ms == Take({x \in Rich(T, env, f) : x.k = "obj" /\ x.c = "plain"}, 3) IN
  UNION { Redress(x, "null") \cup Redress(x, "inst")
          \cup UNION { {VObj(SetAt(x.ps, i, P(x.ps[i].key, y))) : y \in Redress(x.ps[i].v, "inst")} : i \in DOMAIN x.ps }
        : x \in ms }

Probe(T, env, fuel, cap) == Take(Cand(T, env, fuel), cap) \cup AtomPool \cup Take(Hostile(T, env, fuel), 16) \cup Take(Faults(T, env, fuel), 40) \cup Take(Rich(T, env, fuel), 24)
                            \cup Take(Foreign(T, env, fuel), 9)
\* ------------------------------------------------------------------ twins
\* Near-copies of a type: one attribute changed (a literal, the optional mark of a property, the presence of a rest element or of an
\* index signature, one member of a union, the key and value of a Map, a constructor name, one format).  The family "twin" puts a
\* type and one of its twins into ONE program, in both orders ({ a: T, b: T' } and { a: T', b: T }): whatever the compiler shares
\* between equal-looking sub-validators (hoisted constants, dispatch tables, named references) must tell them apart.
RECURSIVE Twins(_)
Twins(T) ==
  CASE T.t = "prim"  -> IF T.p = "string" THEN {TNumber} ELSE IF T.p = "number" THEN {TString} ELSE IF T.p = "null" THEN {TUndef} ELSE {}
    [] T.t = "lit"   -> IF T.v.k = "str" THEN {LS(T.v.s \o "x")} ELSE IF T.v.k = "num" THEN {LN("2"), LN("1")} \ {T} ELSE {}
    [] T.t = "arr"   -> {Arr(x) : x \in Twins(T.e)}
    [] T.t = "set"   -> {SetT(x) : x \in Twins(T.e)}
    [] T.t = "map"   -> ({MapT(T.vt, T.kt)} \ {T}) \cup {MapT(T.kt, x) : x \in Twins(T.vt)}
    [] T.t = "ta"    -> {TaT("Int8Array"), TaT("Uint8ClampedArray")} \ {T}
    [] T.t = "tuple" -> {IF T.r = <<>> THEN [T EXCEPT !.r = <<TString>>] ELSE [T EXCEPT !.r = <<>>]}
                        \cup UNION {{[T EXCEPT !.es[i] = x] : x \in Twins(T.es[i])} : i \in DOMAIN T.es}
    [] T.t = "obj"   -> {[T EXCEPT !.ps[i].opt = ~@] : i \in DOMAIN T.ps}
                        \cup UNION {{[T EXCEPT !.ps[i].ty = x] : x \in Twins(T.ps[i].ty)} : i \in DOMAIN T.ps}
                        \cup (IF T.ix # <<>> THEN {[T EXCEPT !.ix = <<>>]} \cup {[T EXCEPT !.ix[1].vt = x] : x \in Twins(T.ix[1].vt)}
                              ELSE {[T EXCEPT !.ix = <<Ix(TString, TString)>>]})
    [] T.t \in {"union", "inter"} ->
                        (IF Len(T.ms) > 2 THEN {[T EXCEPT !.ms = SubSeq(T.ms, 1, Len(T.ms) - 1)]} ELSE {})
                        \cup UNION {{[T EXCEPT !.ms[i] = x] : x \in Twins(T.ms[i])} : i \in DOMAIN T.ms}
    [] T.t \in {"sfmt", "nfmt"} -> IF Len(T.fs) > 1 THEN {[T EXCEPT !.fs = SubSeq(T.fs, 1, 1)]} ELSE {}
    [] T.t = "tpl"   -> {Tpl(T.parts \o <<TpLit("x")>>)}
    [] OTHER -> {}
RECURSIVE Closed(_)
Closed(T) ==
  CASE T.t \in {"ref", "app", "param"} -> FALSE
    [] T.t \in {"arr", "set"} -> Closed(T.e)
    [] T.t = "map" -> Closed(T.kt) /\ Closed(T.vt)
    [] T.t = "tuple" -> (\A i \in DOMAIN T.es : Closed(T.es[i])) /\ (\A i \in DOMAIN T.r : Closed(T.r[i]))
    [] T.t = "obj" -> (\A i \in DOMAIN T.ps : Closed(T.ps[i].ty)) /\ (\A i \in DOMAIN T.ix : Closed(T.ix[i].kt) /\ Closed(T.ix[i].vt))
    [] T.t \in {"union", "inter"} -> \A i \in DOMAIN T.ms : Closed(T.ms[i])
    [] T.t = "deco" -> Closed(T.a)
    [] OTHER -> TRUE


=============================================================================

--------------------------- MODULE BeffValues ---------------------------
(***************************************************************************)
(* Value terms: the JavaScript values the drivers build and observe.      *)
(* One record shape per kind, tagged by field k.  The Node driver has the  *)
(* only encoder/decoder (driver/driver.mjs: encode / decode).              *)
(* Numbers are carried as canonical numeral strings (TLC has no floats).   *)
(***************************************************************************)
EXTENDS Naturals, Sequences, FiniteSets, TLC

VNull      == [k |-> "null"]
VUndef     == [k |-> "undef"]
VBool(b)   == [k |-> "bool", b |-> b]
VNum(n)    == [k |-> "num", n |-> n]
VStr(s)    == [k |-> "str", s |-> s]
VBig(n)    == [k |-> "big", n |-> n]
VDate(d)   == [k |-> "date", d |-> d]          \* d: epoch millis numeral or "invalid"
VFn        == [k |-> "fn"]
VTa(c, es) == [k |-> "ta", c |-> c, es |-> es] \* c: constructor name, es: sequence of small naturals
VMap(es)   == [k |-> "map", es |-> es]         \* es: sequence of [mk |-> key, mv |-> value]
VSet(es)   == [k |-> "set", es |-> es]
VArr(es)   == [k |-> "arr", es |-> es]
VHole      == [k |-> "hole"]                   \* only as an element of an array: an index that is not there (sparse array); reads as undefined
VObjC(c, ps) == [k |-> "obj", c |-> c, ps |-> ps] \* ps: sequence of [key |-> string, v |-> value], own enumerable props in order
VObj(ps)   == VObjC("plain", ps)
P(key, v)  == [key |-> key, v |-> v]
E(mk, mv)  == [mk |-> mk, mv |-> mv]

IsNullish(v) == v.k \in {"null", "undef", "hole"}
\* what reading the element gives
Deh(v) == IF v.k = "hole" THEN VUndef ELSE v
IsObjLike(v) == v.k \in {"obj", "date", "map", "set", "ta"}   \* typeof "object", non-null, not an array

\* own enumerable string-keyed properties (Date/Map/Set/typed arrays of length 0 have none)
Props(v) == IF v.k = "obj" THEN v.ps ELSE <<>>
Keys(v)  == {Props(v)[i].key : i \in DOMAIN Props(v)}
HasKey(v, key) == key \in Keys(v)
\* property read as the runtime sees it when the key is an ordinary (non-hostile) name
Get(v, key) == IF HasKey(v, key)
               THEN Props(v)[CHOOSE i \in DOMAIN Props(v) : Props(v)[i].key = key].v
               ELSE VUndef

HostileKeys == {"__proto__", "constructor", "toString", "hasOwnProperty", "valueOf", "prototype"}

\* closed universe of numerals used by generators; semantic facts the spec needs about them
Numerals == {"0", "1", "2", "-1", "0.5", "NaN", "Infinity", "1e+21"}
NumGE0   == {"0", "1", "2", "0.5", "Infinity", "1e+21"}
NumGE1   == {"1", "2", "Infinity", "1e+21"}
NumInt   == {"0", "1", "2", "-1", "1e+21"}

\* JSON-representable (for C02): finite numbers, strings, booleans, null, arrays, plain objects
RECURSIVE IsJson(_)
IsJson(v) ==
  CASE v.k \in {"null", "bool", "str"} -> TRUE
    [] v.k = "num" -> v.n \notin {"NaN", "Infinity", "-Infinity"}
    [] v.k = "arr" -> \A i \in DOMAIN v.es : IsJson(v.es[i])
    [] v.k = "obj" -> v.c = "plain" /\ \A i \in DOMAIN v.ps : IsJson(v.ps[i].v)
    [] OTHER -> FALSE

RECURSIVE NullFree(_)
NullFree(v) ==
  CASE v.k \in {"null", "undef"} -> FALSE
    [] v.k = "arr" -> \A i \in DOMAIN v.es : NullFree(v.es[i])
    [] v.k = "obj" -> \A i \in DOMAIN v.ps : NullFree(v.ps[i].v)
    [] OTHER -> TRUE

\* Kleene three-valued verdicts: "T", "F", "X" (contested / don't care)
B3(b)   == IF b THEN "T" ELSE "F"
And3(S) == IF "F" \in S THEN "F" ELSE IF "X" \in S THEN "X" ELSE "T"
Or3(S)  == IF "T" \in S THEN "T" ELSE IF "X" \in S THEN "X" ELSE "F"
Not3(x) == IF x = "T" THEN "F" ELSE IF x = "F" THEN "T" ELSE "X"
\* an observed two-valued outcome o ("T"/"F") is explained by verdict e
Agrees(o, e) == e = "X" \/ o = e

SeqToSet(s) == {s[i] : i \in DOMAIN s}
=============================================================================

--------------------------- MODULE BeffTypes ---------------------------
(***************************************************************************)
(* TS-level type terms (what the user writes) and declaration              *)
(* environments.  Rendered to TypeScript source by lib/render.py.          *)
(***************************************************************************)
EXTENDS BeffValues

Prim(p)      == [t |-> "prim", p |-> p]   \* string number boolean null undefined void any unknown never object bigint Date
Lit(v)       == [t |-> "lit", v |-> v]    \* v: VStr / VNum / VBool
Tpl(parts)   == [t |-> "tpl", parts |-> parts]
Arr(e)       == [t |-> "arr", e |-> e]
Tup(es, r)   == [t |-> "tuple", es |-> es, r |-> r]         \* r: <<>> or <<restElementType>>
Obj(ps, ix)  == [t |-> "obj", ps |-> ps, ix |-> ix]         \* ps: seq of Prop; ix: <<>> or <<[kt, vt]>>
Prop(key, ty, opt) == [key |-> key, ty |-> ty, opt |-> opt]
Ix(kt, vt)   == [kt |-> kt, vt |-> vt]
Uni(ms)      == [t |-> "union", ms |-> ms]
Inter(ms)      == [t |-> "inter", ms |-> ms]
Ref(n)       == [t |-> "ref", n |-> n]
MapT(kt, vt) == [t |-> "map", kt |-> kt, vt |-> vt]
SetT(e)      == [t |-> "set", e |-> e]
TaT(c)       == [t |-> "ta", c |-> c]
SFmt(fs)     == [t |-> "sfmt", fs |-> fs]  \* StringFormat<f1> / StringFormatExtends<.., f2>
NFmt(fs)     == [t |-> "nfmt", fs |-> fs]

\* template parts
TpStr     == [p |-> "str"]
TpNum     == [p |-> "num"]
TpBool    == [p |-> "bool"]
TpLit(s)  == [p |-> "lit", s |-> s]
TpOne(ss) == [p |-> "oneof", ss |-> ss]   \* alternation of string literals (a sequence)

TString  == Prim("string")
TNumber  == Prim("number")
TBoolean == Prim("boolean")
TNull    == Prim("null")
TUndef   == Prim("undefined")
TAny     == Prim("any")
TNever   == Prim("never")
LS(s)   == Lit(VStr(s))
LN(n)   == Lit(VNum(n))
LB(b)   == Lit(VBool(b))

\* environments: sequence of [n |-> name, ty |-> body, kind |-> "type" | "interface"]
Decl(n, ty) == [n |-> n, ty |-> ty]
Lookup(env, n) == env[CHOOSE i \in DOMAIN env : env[i].n = n].ty
Defined(env, n) == \E i \in DOMAIN env : env[i].n = n
=============================================================================

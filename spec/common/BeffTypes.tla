--------------------------- MODULE BeffTypes ---------------------------
(***************************************************************************)
(* TS-level type terms (what the user writes) and declaration              *)
(* environments.  Rendered to TypeScript source by lib/render.py.          *)
(***************************************************************************)
EXTENDS BeffValues

Prim(p)      == [t |-> "prim", p |-> p]   \* string number boolean null undefined void any unknown never object bigint Date
Lit(v)       == [t |-> "lit", v |-> v]    \* v: VStr / VNum / VBool
Tpl(parts)   == [t |-> "tpl", parts |-> parts]
Arr(e)       == [t |-> "arr", e |-> e]
Tup(es, r)   == [t |-> "tuple", es |-> es, r |-> r]         \* r: <<>> or <<restElementType>>
Obj(ps, ix)  == [t |-> "obj", ps |-> ps, ix |-> ix]         \* ps: seq of Prop; ix: <<>> or <<[kt, vt]>>
Prop(key, ty, opt) == [key |-> key, ty |-> ty, opt |-> opt]
Ix(kt, vt)   == [kt |-> kt, vt |-> vt]
Uni(ms)      == [t |-> "union", ms |-> ms]
Inter(ms)      == [t |-> "inter", ms |-> ms]
Ref(n)       == [t |-> "ref", n |-> n]
MapT(kt, vt) == [t |-> "map", kt |-> kt, vt |-> vt]
SetT(e)      == [t |-> "set", e |-> e]
TaT(c)       == [t |-> "ta", c |-> c]
SFmt(fs)     == [t |-> "sfmt", fs |-> fs]  \* StringFormat<f1> / StringFormatExtends<.., f2>
NFmt(fs)     == [t |-> "nfmt", fs |-> fs]

App(n, args) == [t |-> "app", n |-> n, args |-> args]   \* generic instantiation N<args>; the declaration has params
Param(n)     == [t |-> "param", n |-> n]                \* type parameter inside a generic declaration
Deco(d, a)   == [t |-> "deco", d |-> d, a |-> a]        \* spelling-only decoration: parens | readonly | comment | jsdoc

\* template parts
TpStr     == [p |-> "str"]
TpNum     == [p |-> "num"]
TpBool    == [p |-> "bool"]
TpLit(s)  == [p |-> "lit", s |-> s]
TpOne(ss) == [p |-> "oneof", ss |-> ss]   \* alternation of string literals (a sequence)

TString  == Prim("string")
TNumber  == Prim("number")
TBoolean == Prim("boolean")
TNull    == Prim("null")
TUndef   == Prim("undefined")
TAny     == Prim("any")
TNever   == Prim("never")
LS(s)   == Lit(VStr(s))
LN(n)   == Lit(VNum(n))
LB(b)   == Lit(VBool(b))

\* environments: sequence of [n |-> name, ty |-> body, kind |-> "type" | "interface"]
Decl(n, ty) == [n |-> n, ty |-> ty, kind |-> "type"]
DeclOf(env, n) == env[CHOOSE i \in DOMAIN env : env[i].n = n]

\* substitution of type parameters (generic instantiation)
RECURSIVE Subst(_, _)
Subst(T, sg) ==
  CASE T.t = "param" -> IF T.n \in DOMAIN sg THEN sg[T.n] ELSE T
    [] T.t = "arr"   -> [T EXCEPT !.e = Subst(T.e, sg)]
    [] T.t = "set"   -> [T EXCEPT !.e = Subst(T.e, sg)]
    [] T.t = "map"   -> [T EXCEPT !.kt = Subst(T.kt, sg), !.vt = Subst(T.vt, sg)]
    [] T.t = "tuple" -> [T EXCEPT !.es = [i \in DOMAIN T.es |-> Subst(T.es[i], sg)], !.r = [i \in DOMAIN T.r |-> Subst(T.r[i], sg)]]
    [] T.t = "obj"   -> [T EXCEPT !.ps = [i \in DOMAIN T.ps |-> [T.ps[i] EXCEPT !.ty = Subst(T.ps[i].ty, sg)]],
                                  !.ix = [i \in DOMAIN T.ix |-> [kt |-> Subst(T.ix[i].kt, sg), vt |-> Subst(T.ix[i].vt, sg)]]]
    [] T.t \in {"union", "inter"} -> [T EXCEPT !.ms = [i \in DOMAIN T.ms |-> Subst(T.ms[i], sg)]]
    [] T.t = "app"   -> [T EXCEPT !.args = [i \in DOMAIN T.args |-> Subst(T.args[i], sg)]]
    [] T.t = "deco"  -> [T EXCEPT !.a = Subst(T.a, sg)]
    \* type operators (terms of TsEval): a generic body may use them on its parameters
    [] T.t = "util"  -> [T EXCEPT !.args = [i \in DOMAIN T.args |-> Subst(T.args[i], sg)]]
    [] T.t = "keyof" -> [T EXCEPT !.a = Subst(T.a, sg)]
    [] T.t = "index" -> [T EXCEPT !.a = Subst(T.a, sg), !.i = Subst(T.i, sg)]
    [] T.t = "cond"  -> [T EXCEPT !.a = Subst(T.a, sg), !.b = Subst(T.b, sg), !.x = Subst(T.x, sg), !.y = Subst(T.y, sg)]
    \* the key variable of a mapped type is a binder: it shadows a parameter of the same name inside the value type
    [] T.t = "mapped" -> [T EXCEPT !.keys = Subst(T.keys, sg),
                                   !.v = Subst(T.v, [k \in DOMAIN sg \ {T.kv} |-> sg[k]])]
    [] OTHER -> T
\* body of N<args>
Instantiate(env, n, args) ==
  LET d == DeclOf(env, n) IN Subst(d.ty, [k \in {d.params[i] : i \in DOMAIN d.params} |->
                                           args[CHOOSE i \in DOMAIN d.params : d.params[i] = k]])
Lookup(env, n) == env[CHOOSE i \in DOMAIN env : env[i].n = n].ty
Defined(env, n) == \E i \in DOMAIN env : env[i].n = n
=============================================================================

--------------------------- MODULE MC_Bdd ---------------------------
EXTENDS Bdd, Json
\* one TRANS line per state: the operands and what the spec computes for every operation (replayed on BddOps)
EmitInv == PrintT(<<"TRANS", ToJson([x |-> x, y |-> y, u |-> Union(x, y), i |-> Inter(x, y), d |-> Diff(x, y), c |-> Compl(x),
                                     dnf |-> BddToDnf(x), back |-> DnfToBdd(BddToDnf(x))])>>)
=============================================================================

--------------------------- MODULE MC_Determinism ---------------------------
EXTENDS Determinism, Json
EmitInv == PrintT(<<"PROJ", ToJson([kinds |-> kinds, style |-> style])>>)
EmitRec == PrintT(<<"REC", ToJson([shape |-> shape, op |-> style])>>)
EmitWide == PrintT(<<"WIDE", ToJson([shape |-> shape, width |-> width])>>)
=============================================================================

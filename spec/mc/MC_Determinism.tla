--------------------------- MODULE MC_Determinism ---------------------------
EXTENDS Determinism, Json
EmitInv == PrintT(<<"PROJ", ToJson([kinds |-> kinds, style |-> style])>>)
=============================================================================

--------------------------- MODULE MC_Determinism ---------------------------
EXTENDS Determinism, Json
EmitInv == PrintT(<<"PROJ", ToJson([kinds |-> kinds, style |-> style])>>)
EmitWide == PrintT(<<"WIDE", ToJson([shape |-> shape, width |-> width])>>)
=============================================================================

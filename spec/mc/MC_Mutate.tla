--------------------------- MODULE MC_Mutate ---------------------------
(***************************************************************************)
(* C04 (ii): mutation schedules over the repository's own test corpus.     *)
(* A state is (program index, operator, position); the harness applies the *)
(* operator to the program's text.  TLC enumerates the whole schedule.     *)
(***************************************************************************)
EXTENDS Naturals, TLC, Json
CONSTANTS NProgs, MaxPos
Ops == {"DeleteDecl", "DuplicateDecl", "RenameRef", "SwapTypeArgs", "DropTypeArg", "MakeCyclicAlias", "AliasChain",
        "WrapPartial", "WrapKeyof", "WrapRecordKey", "WrapExclude", "WrapIndexed", "ReplaceByNever", "TruncateAt",
        \* layout only: tab indentation, wide (CJK) characters before every line
        "IndentTabs", "WidePrefix"}
VARIABLES prog, op, pos
Init == prog \in 1..NProgs /\ op \in Ops /\ pos \in 1..MaxPos
Next == UNCHANGED <<prog, op, pos>>
Spec == Init /\ [][Next]_<<prog, op, pos>>
EmitInv == PrintT(<<"MUT", ToJson([prog |-> prog, op |-> op, pos |-> pos])>>)
=============================================================================

--------------------------- MODULE MC_Writer ---------------------------
EXTENDS Sha256Writer, Json, TLC
\* one BEH line per finished behaviour (sequence of write sizes, then Digest) with the model's projection
EmitInv == finished => PrintT(<<"BEH", ToJson([writes |-> writes, total |-> total, blocks |-> blocks])>>)
=============================================================================

--------------------------- MODULE MC_Rewrite ---------------------------
EXTENDS Rewrite, Json
AllSeeds == 1..NSeeds
HandOnly == 1..NHandSeeds
EmitInv ==
  PrintT(<<"STATE", ToJson([seed |-> seed, steps |-> steps, rule |-> rule, rules |-> SetToSeq(rules), env |-> env, ty |-> ty,
                            probes |-> IF steps = 0 THEN SetToSeq(SeedProbes) ELSE <<>>])>>)
=============================================================================

--------------------------- MODULE MC_HashEnc ---------------------------
(***************************************************************************)
(* Design-level check of the hash256 encoding (C13), on the model          *)
(* Runtime!HEnc alone: over a pool of small runtime trees                  *)
(*   Injective   - two trees with the same token stream are equal up to    *)
(*                 the order of properties / constants / formats /         *)
(*                 mapping entries (a field the encoding leaves out, or a   *)
(*                 length prefix that is missing, is a counterexample);    *)
(*   AliasTransparent - a reference to a non-recursive named type encodes  *)
(*                 as its body;                                            *)
(*   AlphaInvariant   - renaming recursive types, and declaring mutually   *)
(*                 recursive types in another order, keeps the stream;     *)
(*   OrderInvariant   - permuting properties / constants keeps it.         *)
(* The binding (Trace_Runtime) checks that the real hash256 emits exactly  *)
(* this stream for the trees of the generated programs.                    *)
(***************************************************************************)
EXTENDS Runtime, FiniteSets

T(name)  == [c |-> "typeof", name |-> name]
AnyR     == [c |-> "any"]
NullishR == [c |-> "nullish", d |-> "null"]
ConstR(v) == [c |-> "const", v |-> v]
ConstsR(vs) == [c |-> "consts", vs |-> vs]
ArrR(e)  == [c |-> "array", e |-> e]
SetR(e)  == [c |-> "set", e |-> e]
MapR(a, b) == [c |-> "map", kt |-> a, vt |-> b]
TupR(p, r) == [c |-> "tuple", prefix |-> p, rest |-> r]
OptR(t)  == [c |-> "opt", t |-> t]
ObjR(ps, ix) == [c |-> "object", ps |-> ps, ix |-> ix]
AnyOfR(ms) == [c |-> "anyOf", ms |-> ms]
AllOfR(ms) == [c |-> "allOf", ms |-> ms]
RefR(n)  == [c |-> "ref", n |-> n]
DiscR(d, ms, mp) == [c |-> "disc", d |-> d, ms |-> ms, mapping |-> mp]
PE(key, rt) == [key |-> key, rt |-> rt]
IXE(a, b) == [kt |-> a, vt |-> b]

Leaves == { T("string"), T("number"), AnyR, NullishR, ConstR(VStr("a")), ConstR(VNum("1")), ConstR(VStr("1")), ConstR(VBool(TRUE)),
            ConstsR(<<VStr("a"), VStr("b")>>), ConstsR(<<VStr("a")>>), ConstsR(<<VStr("a"), VNull>>),
            [c |-> "date"], [c |-> "sfmt", fs |-> <<"f1">>], [c |-> "nfmt", fs |-> <<"f1">>], [c |-> "sfmt", fs |-> <<"f1", "f2">>],
            [c |-> "regex", d |-> "`a${string}`"], [c |-> "ta", ctor |-> "Uint8Array"] }
L2 == { T("string"), T("number"), ConstR(VStr("a")), NullishR }

\* every way to give key k: absent, required leaf, optional leaf
PropChoices(k) == {<<>>} \cup {<<PE(k, l)>> : l \in L2} \cup {<<PE(k, OptR(l))>> : l \in L2}
Objects == { ObjR(pa \o pb, ix) : pa \in PropChoices("a"), pb \in PropChoices("b"),
                                  ix \in {<<>>} \cup {<<IXE(T("string"), l)>> : l \in L2} }
Level1 == Leaves
          \cup {ArrR(l) : l \in Leaves} \cup {SetR(l) : l \in Leaves} \cup {OptR(l) : l \in L2}
          \cup {MapR(a, b) : a \in L2, b \in L2}
          \cup {TupR(<<a>>, <<>>) : a \in L2} \cup {TupR(<<a, b>>, <<>>) : a \in L2, b \in L2}
          \cup {TupR(<<a>>, <<b>>) : a \in L2, b \in L2} \cup {TupR(<<>>, <<b>>) : b \in L2}
          \cup {AnyOfR(<<a, b>>) : a \in L2, b \in L2} \cup {AllOfR(<<a, b>>) : a \in L2, b \in L2}
          \cup {AnyOfR(<<a>>) : a \in L2} \cup {AnyOfR(<<>>), AllOfR(<<>>), TupR(<<>>, <<>>)}
          \cup Objects
          \cup { DiscR(d, <<ObjR(<<PE(d, ConstR(VStr("x")))>>, <<>>), ObjR(<<PE(d, ConstR(VStr("y"))), PE("a", l)>>, <<>>)>>,
                       <<PE("x", ObjR(<<PE(d, ConstR(VStr("x")))>>, <<>>)), PE("y", ObjR(<<PE(d, ConstR(VStr("y"))), PE("a", l)>>, <<>>))>>)
                 : d \in {"t", "u"}, l \in L2 }
\* one level of nesting over a thinner base (where concatenation ambiguities would show: [ [a], b ] vs [ [a, b] ])
N1 == {TupR(<<a>>, <<>>) : a \in L2} \cup {TupR(<<a, b>>, <<>>) : a \in L2, b \in L2} \cup {ArrR(a) : a \in L2} \cup L2
      \cup {ObjR(<<PE("a", l)>>, <<>>) : l \in L2} \cup {AnyOfR(<<a, b>>) : a \in L2, b \in L2}
Level2 == {TupR(<<x, y>>, <<>>) : x \in N1, y \in N1} \cup {TupR(<<x>>, <<y>>) : x \in N1, y \in L2}
          \cup {ObjR(<<PE("a", x), PE("b", y)>>, <<>>) : x \in N1, y \in L2}
          \cup {ObjR(<<PE("a", x)>>, <<IXE(T("string"), y)>>) : x \in N1, y \in L2}
          \cup {AnyOfR(<<x, y>>) : x \in N1, y \in L2}
Pool == Level1 \cup Level2

Order == <<"a", "b", "f1", "f2", "next", "p", "q", "t", "u", "v", "x", "y">>
COrder == <<"boolean:true", "null:", "number:1", "string:1", "string:a", "string:b">>
R0 == [k |-> RankOf(Order), c |-> RankOf(COrder)]
Enc(t) == HEnc(t, <<>>, R0)

\* equality up to the order of what the encoding sorts
RECURSIVE Canon(_)
Canon(t) ==
  CASE t.c = "object" -> [c |-> "object", ps |-> {[key |-> t.ps[i].key, rt |-> Canon(t.ps[i].rt)] : i \in DOMAIN t.ps},
                          ix |-> [i \in DOMAIN t.ix |-> [kt |-> Canon(t.ix[i].kt), vt |-> Canon(t.ix[i].vt)]]]
    [] t.c = "consts" -> [c |-> "consts", vs |-> {t.vs[i] : i \in DOMAIN t.vs}, n |-> Len(t.vs)]
    [] t.c \in {"sfmt", "nfmt"} -> [c |-> t.c, fs |-> {t.fs[i] : i \in DOMAIN t.fs}, n |-> Len(t.fs)]
    [] t.c = "disc" -> [c |-> "disc", d |-> t.d, ms |-> [i \in DOMAIN t.ms |-> Canon(t.ms[i])],
                        mapping |-> {[key |-> t.mapping[i].key, rt |-> Canon(t.mapping[i].rt)] : i \in DOMAIN t.mapping}]
    [] t.c = "tuple" -> [c |-> "tuple", prefix |-> [i \in DOMAIN t.prefix |-> Canon(t.prefix[i])], rest |-> [i \in DOMAIN t.rest |-> Canon(t.rest[i])]]
    [] t.c \in {"allOf", "anyOf"} -> [c |-> t.c, ms |-> [i \in DOMAIN t.ms |-> Canon(t.ms[i])]]
    [] t.c \in {"array", "set"} -> [c |-> t.c, e |-> Canon(t.e)]
    [] t.c = "map" -> [c |-> "map", kt |-> Canon(t.kt), vt |-> Canon(t.vt)]
    [] t.c = "opt" -> [c |-> "opt", t |-> Canon(t.t)]
    [] t.c = "nullish" -> [c |-> "nullish"]          \* null / undefined / void are one validator
    [] OTHER -> t

VARIABLE cur
Init == cur \in Pool
Next == UNCHANGED cur
Spec == Init /\ [][Next]_cur

EncOf == [t \in Pool |-> Enc(t)]
Injective == \A u \in Pool : EncOf[u] = EncOf[cur] => Canon(u) = Canon(cur)

\* ------------------------------------------------------------------ named types
Swap(ps) == IF Len(ps) = 2 THEN <<ps[2], ps[1]>> ELSE ps
OrderInvariant ==
  /\ cur.c = "object" => Enc(ObjR(Swap(cur.ps), cur.ix)) = Enc(cur)
  /\ cur.c = "consts" => Enc(ConstsR(Swap(cur.vs))) = Enc(cur)

AliasTransparent ==
  LET named == <<[n |-> "A", rt |-> cur], [n |-> "B", rt |-> RefR("A")]>> IN
  /\ HEnc(RefR("A"), named, R0) = Enc(cur)
  /\ HEnc(RefR("B"), named, R0) = Enc(cur)
  /\ HEnc(ArrR(RefR("B")), named, R0) = Enc(ArrR(cur))

\* a list-like recursive type whose payload is cur; a pair of mutually recursive types
ListOf(n, x) == ObjR(<<PE("v", x), PE("next", OptR(RefR(n)))>>, <<>>)
AlphaInvariant ==
  LET e1 == HEnc(RefR("R"), <<[n |-> "R", rt |-> ListOf("R", cur)]>>, R0)
      e2 == HEnc(RefR("Zz"), <<[n |-> "Zz", rt |-> ListOf("Zz", cur)]>>, R0)
      \* an alias in front of the recursive type, and the recursive type reached through a non-recursive holder
      e3 == HEnc(RefR("A"), <<[n |-> "A", rt |-> RefR("R")], [n |-> "R", rt |-> ListOf("R", cur)]>>, R0)
      p1 == HEnc(RefR("P"), <<[n |-> "P", rt |-> ObjR(<<PE("q", OptR(RefR("Q"))), PE("v", cur)>>, <<>>)],
                              [n |-> "Q", rt |-> ObjR(<<PE("p", OptR(RefR("P")))>>, <<>>)]>>, R0)
      p2 == HEnc(RefR("Y"), <<[n |-> "X", rt |-> ObjR(<<PE("p", OptR(RefR("Y")))>>, <<>>)],
                              [n |-> "Y", rt |-> ObjR(<<PE("q", OptR(RefR("X"))), PE("v", cur)>>, <<>>)]>>, R0)
  IN e1 = e2 /\ e1 = e3 /\ p1 = p2
     \* the recursive type is not its one-step unrolling's payload: the stream mentions the cycle
     /\ \E i \in DOMAIN e1 : e1[i] = Tag("cycleRef")
=============================================================================

--------------------------- MODULE MC_Whole ---------------------------
EXTENDS TsWhole, Json, TLC
EmitInv == PrintT(<<"WHOLE", ToJson([kind |-> kind, ex |-> ex, im |-> im, us |-> us, sp |-> sp, files |-> Files])>>)
=============================================================================

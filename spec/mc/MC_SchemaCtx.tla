--------------------------- MODULE MC_SchemaCtx ---------------------------
EXTENDS SchemaCtx, Json
\* the project itself: the harness renders it to TypeScript (one source of truth)
ASSUME PrintT(<<"ENVJ", ToJson([env |-> Env])>>)
\* one SEQ line per reachable state = per call sequence (with the model's prediction), for replay
EmitInv == PrintT(<<"SEQ", ToJson([calls |-> calls, ov |-> useOverrides, ok |-> lastOk,
                                   names |-> SetToSeq(DOMAIN ctx.col), prog |-> SetToSeq(ctx.prog),
                                   src |-> [i \in 1..Cardinality(DOMAIN ctx.col) |->
                                             LET n == SetToSeq(DOMAIN ctx.col)[i] IN [n |-> n, s |-> ctx.col[n]]]])>>)
=============================================================================

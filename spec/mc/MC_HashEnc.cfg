SPECIFICATION Spec
INVARIANT Injective
INVARIANT OrderInvariant
INVARIANT AliasTransparent
INVARIANT AlphaInvariant
CHECK_DEADLOCK FALSE

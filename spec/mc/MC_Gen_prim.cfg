SPECIFICATION Spec
CONSTANTS
  Family = "prim"
  MaxDepth = 1
INVARIANT OracleLaws
INVARIANT EmitInv
CHECK_DEADLOCK FALSE

--------------------------- MODULE MC_Gen ---------------------------
(* Model-checking wrapper for TypeGen: emits one CASE line per program (state). *)
EXTENDS TypeGen, Json

Emit == PrintT(<<"CASE", ToJson(CaseRecord)>>)
EmitInv == Emit
=============================================================================

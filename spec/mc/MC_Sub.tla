--------------------------- MODULE MC_Sub ---------------------------
EXTENDS SemGen, Json
ASSUME PrintT(<<"TYPES", ToJson([frag |-> Frag, env |-> Env])>>)
EmitInv == PrintT(<<"PAIR", ToJson([ia |-> ia, ib |-> ib, sub |-> Sub(A, B, Env)])>>)
=============================================================================

--------------------------- MODULE MC_Chains ---------------------------
EXTENDS Chains, Json, TLC
EmitInv == PrintT(<<"CHAIN", ToJson([len |-> len, kind |-> kind, split |-> split, style |-> style,
                                      files |-> [i \in 1..(len + 1) |-> FileOf(i - 1)]])>>)
=============================================================================

--------------------------- MODULE MC_Grammar ---------------------------
EXTENDS TsGrammar, Json
ASSUME PrintT(<<"PRELUDE", ToJson([text |-> Prelude])>>)
EmitInv == PrintT(<<"PROG", ToJson([expr |-> expr, depth |-> depth])>>)
=============================================================================

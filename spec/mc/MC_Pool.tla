--------------------------- MODULE MC_Pool ---------------------------
EXTENDS Probe, Json
ASSUME PrintT(<<"POOL", ToJson(SetToSeq(CommonPool))>>)
=============================================================================

--------------------------- MODULE MC_Modules ---------------------------
EXTENDS Modules, Json
SiteSeq == <<<<"T", "A">>, <<"T", "B">>, <<"T", "k">>, <<"T", "G">>, <<"A", "B">>, <<"T", "E">>, <<"T", "E2">>, <<"T", "E3">>>>
EmitInv == PrintT(<<"LAYOUT", ToJson([dname |-> [d \in Decls |-> DeclaredName(d)], place |-> place, exp |-> exp, kind |-> kind, decoy |-> decoy,
                                      imp |-> [i \in DOMAIN SiteSeq |-> [u |-> SiteSeq[i][1], d |-> SiteSeq[i][2], st |-> imp[SiteSeq[i]]]],
                                      broken |-> [u |-> broken[1], d |-> broken[2]], expected |-> ExpectedOutcome, steps |-> steps])>>)
=============================================================================

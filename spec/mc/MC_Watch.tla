--------------------------- MODULE MC_Watch ---------------------------
EXTENDS Watch, Json, SequencesExt
\* history variable for replay: the sequence of steps that led here (hidden from the state space by VIEW)
VARIABLE hist
mvars == <<disk, cache, bound, watched, out, built, steps, hist>>
MInit == Init /\ hist = <<>>
MNext == \/ Rebuild /\ hist' = Append(hist, [op |-> "rebuild", f |-> "", c |-> ""])
         \/ \E f \in Files : \E c \in Variants(f) : Edit(f, c) /\ hist' = Append(hist, [op |-> "edit", f |-> f, c |-> c])
         \/ \E f \in Files : \E c \in Variants(f) : Create(f, c) /\ hist' = Append(hist, [op |-> "create", f |-> f, c |-> c])
         \/ \E f \in Files : Delete(f) /\ hist' = Append(hist, [op |-> "delete", f |-> f, c |-> "missing"])
MSpec == MInit /\ [][MNext]_mvars
View == <<disk, cache, bound, watched, out, built>>
\* one HIST line per reached state (a shortest history to it, thanks to breadth-first search + VIEW)
EmitInv == PrintT(<<"HIST", ToJson([hist |-> hist, cache |-> cache, watched |-> SetToSeq(watched), built |-> built])>>)
=============================================================================

#!/usr/bin/env python3
"""bin/tryts.py <program.ts | -> [<values.json>]: ad hoc triage - compile one program through the harness, validate JSON values with
the emitted validators (root T), print describe() and the outcome of compiling the described text again (generation 2).
values.json is a JSON array of plain JSON values (no Map / Set / undefined). Not a check; used to reproduce findings by hand."""
import json
import os
import sys

sys.path.insert(0, os.path.join(os.path.dirname(os.path.abspath(__file__)), "..", "lib"))
import vlib  # noqa: E402


def enc(v):
    if v is None:
        return {"k": "null"}
    if isinstance(v, bool):
        return {"k": "bool", "b": v}
    if isinstance(v, (int, float)):
        return {"k": "num", "n": repr(v) if isinstance(v, float) else str(v)}
    if isinstance(v, str):
        return {"k": "str", "s": v}
    if isinstance(v, list):
        return {"k": "arr", "es": [enc(x) for x in v]}
    return {"k": "obj", "c": "plain", "ps": [{"key": k, "v": enc(x)} for k, x in v.items()]}


def main():
    src = sys.stdin.read() if sys.argv[1] == "-" else open(sys.argv[1]).read()
    vals = json.load(open(sys.argv[2])) if len(sys.argv) > 2 else []
    if "buildParsers" not in src:
        src += "\nparse.buildParsers<{ T: T }>();\n"
    vlib.build()
    r = vlib.compile_all([vlib.compile_req(0, [("entry.ts", src)])])[0]
    print("compile:", r["outcome"], json.dumps({k: v for k, v in r.items() if k not in ("code", "outcome")})[:1500])
    if r["outcome"] != "code":
        return
    probes = [enc(v) for v in vals]
    o = vlib.run_driver([{"id": 0, "code": r["code"], "root": "T", "probes": probes, "ops": ["validate", "hash", "describe", "errors", "schema"]}], "tryts")[0]
    print("load:", o["load"], o.get("loadmsg", "")[:500])
    if o["load"] != "ok":
        return
    for v, p in zip(vals, o["probes"]):
        print("  ", json.dumps(v)[:100], "=> default", p["val"], "strict", p["vals"])
    print("hash256:", o["h256"]["v"][:16], "hash:", o["h32"], "describe:", o["describe"])
    print("schema:", json.dumps(o.get("flat", {}).get("json", o.get("flat")))[:1500])
    if o["describe"]["ok"]:
        import re
        names = re.findall(r"^type\s+([A-Za-z_$][A-Za-z0-9_$]*)\s*=", o["describe"]["v"], re.M)
        src2 = o["describe"]["v"] + "\nparse.buildParsers<{ T: %s }>();\n" % (names[-1] if names else "CodecT")
        r2 = vlib.compile_all([vlib.compile_req(0, [("entry.ts", src2)])])[0]
        print("generation 2 compile:", r2["outcome"], json.dumps({k: v for k, v in r2.items() if k not in ("code", "outcome")})[:800])
        if r2["outcome"] == "code":
            o2 = vlib.run_driver([{"id": 0, "code": r2["code"], "root": "T", "probes": probes, "ops": ["validate", "hash", "describe"]}], "tryts2")[0]
            print("generation 2 load:", o2["load"], "hash256:", o2.get("h256", {}).get("v", "")[:16])
            for v, p in zip(vals, o2.get("probes", [])):
                print("  ", json.dumps(v)[:100], "=> default", p["val"], "strict", p["vals"])


if __name__ == "__main__":
    main()

#!/usr/bin/env python3
"""Evaluate seeded mutants: bin/mutants.py <seeded-dir> [<seeded-dir> ...] [--checks C01,C03] [--all]

Works on a scratch copy (/var/tmp/beff-mut/{repo,verif}) so that /repo and /verif stay untouched:
the copy of /repo gets the mutant's patch.diff applied, the copy of /verif is pointed at it (VERIF_ROOT / REPO_ROOT,
harness path dependencies rewritten), and the quick checks run there.  Results -> <seeded-dir>/result.json."""
import json
import os
import subprocess
import sys
import time

ROOT = os.environ.get("MUT_ROOT", "/var/tmp/beff-mut")
GROUPS = {
    "client": ["C01", "C02", "C03", "C11", "C12", "C13", "C15", "C16", "C08"],
    "compiler": ["C01", "C03", "C04", "C08", "C09", "C10", "C13", "C15", "C11"],
    "engine": ["C05", "C06", "C07", "C01", "C04"],
    "wasm": ["C14", "C04"],
}
ALL = ["C01", "C02", "C03", "C04", "C05", "C06", "C07", "C08", "C09", "C10", "C11", "C12", "C13", "C14", "C15", "C16"]


def sh(cmd, **kw):
    return subprocess.run(cmd, shell=True, stdout=subprocess.PIPE, stderr=subprocess.STDOUT, text=True, **kw)


def prepare():
    os.makedirs(ROOT, exist_ok=True)
    r = sh(f"rsync -a --delete --exclude target --exclude .git/worktrees /repo/ {ROOT}/repo/ && cd {ROOT}/repo && git checkout -q -- . && git clean -fdq -e target")
    assert r.returncode == 0, r.stdout
    r = sh(f"rsync -a --delete --exclude .work --exclude evidence --exclude seeded --exclude harness/target /verif/ {ROOT}/verif/")
    assert r.returncode == 0, r.stdout
    sh(f"sed -i 's#/repo/packages#{ROOT}/repo/packages#g' {ROOT}/verif/harness/Cargo.toml")
    os.makedirs(f"{ROOT}/verif/evidence", exist_ok=True)


def groups_for(patch):
    files = [l[6:] for l in open(patch) if l.startswith("+++ b/")]
    g = set()
    for f in files:
        if "beff-client" in f:
            g.add("client")
        elif "subtyping" in f:
            g.add("engine")
        elif "beff-wasm" in f:
            g.add("wasm")
        else:
            g.add("compiler")
    return g


def main():
    args = [a for a in sys.argv[1:] if not a.startswith("--")]
    checks_opt = next((a.split("=", 1)[1] for a in sys.argv[1:] if a.startswith("--checks=")), None)
    run_all = "--all" in sys.argv
    prepare()
    env = dict(os.environ, VERIF_ROOT=f"{ROOT}/verif", REPO_ROOT=f"{ROOT}/repo")
    for d in args:
        d = os.path.abspath(d)
        patch = os.path.join(d, "patch.diff")
        meta = json.load(open(os.path.join(d, "meta.json"))) if os.path.exists(os.path.join(d, "meta.json")) else {}
        sh(f"cd {ROOT}/repo && git checkout -q -- . && git clean -fdq -e target")
        r = sh(f"cd {ROOT}/repo && git apply {patch}")
        reb = os.path.join(d, "patch.rebased.diff")
        if r.returncode != 0 and os.path.exists(reb):
            # the mutated lines were touched by a later fix: the same slip re-made on the current tree
            r = sh(f"cd {ROOT}/repo && git apply {reb}")
        if r.returncode != 0:
            print(d, "PATCH DOES NOT APPLY", r.stdout[:300])
            continue
        if checks_opt:
            checks = checks_opt.split(",")
        elif run_all:
            checks = ALL
        else:
            checks = []
            for g in sorted(groups_for(patch)):
                checks += [c for c in GROUPS[g] if c not in checks]
            tgt = meta.get("property")
            if tgt in ALL and tgt not in checks:
                checks.insert(0, tgt)
            if meta.get("kind") == "regression" and tgt in ALL:
                checks = [tgt]          # the reverse of a repair: the property's own check has to re-find the defect
        res = {}
        for c in checks:
            t0 = time.time()
            r = sh(f"cd {ROOT}/verif && ./bin/check {c} --tier quick", env=env, timeout=3000)
            viol = [l for l in r.stdout.splitlines() if l.startswith("VIOLATION")]
            first = next((l.strip() for l in r.stdout.splitlines() if l.startswith("  ")), "")
            tool = next((l for l in r.stdout.splitlines() if l.startswith("TOOL-ERROR")), "")
            res[c] = {"rc": r.returncode, "violations": len(viol), "first": first[:300], "tool_error": tool[:300], "s": round(time.time() - t0)}
            print(f"{os.path.basename(d)} {c} rc={r.returncode} viol={len(viol)} {first[:140]} {tool[:140]}", flush=True)
        rp = os.path.join(d, "result.json")
        prev = json.load(open(rp))["checks"] if checks_opt and os.path.exists(rp) else {}
        prev.update(res)
        json.dump({"checks": prev, "at": time.strftime("%Y-%m-%d %H:%M:%S")}, open(rp, "w"), indent=1)
    sh(f"cd {ROOT}/repo && git checkout -q -- .")


if __name__ == "__main__":
    main()

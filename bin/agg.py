#!/usr/bin/env python3
"""debug helper: aggregate replay files of a property by complaint kind / program shape"""
import json,glob,collections,sys
prop=sys.argv[1]; tier=sys.argv[2] if len(sys.argv)>2 else 'quick'
g=collections.Counter(); ex={}
for p in glob.glob(f'/verif/evidence/replay/{prop}-{tier}-*.json'):
    d=json.load(open(p))
    kind=d.get('complaint') or (str(d.get('expected'))+'->'+str(d.get('observed')))
    val=d.get('value') or (d.get('document') or {}).get('v')
    vk=(val or {}).get('k') if isinstance(val,dict) else None
    key=(kind,vk,d.get('printing'))
    g[key]+=1
    ex.setdefault(key,(p,' ;; '.join(d['program'].strip().splitlines()[:-1]),json.dumps(val)[:120], (d.get('call') or {}).get('pthrown','')[:150] if d.get('call') else ''))
for k,c in sorted(g.items(),key=lambda x:-x[1]):
    print(c,k,ex[k][1:], ex[k][0].split('/')[-1])

#!/bin/bash
# bin/seedconfirm.sh <worktree> <prop> <n> [<k>]: (kept as seeded/<prop>-m<k>, default k = n)
# bin/seedconfirm.sh <worktree> <prop> <n>: confirm a sub-agent's mutant in its scratch worktree and keep it under /verif/seeded
# (suite passes with the patch; demo fails with it and passes without)
WT=$1; P=$2; N=$3; K=${4:-$3}
M=$WT/SEED/mutant$N
cd $WT || exit 2
git checkout -q -- . ; git stash list | head -1
git apply --check $M/patch.diff || { echo "PATCH-DOES-NOT-APPLY"; exit 1; }
git apply $M/patch.diff
SUITE=$(cargo test --workspace --no-fail-fast --offline 2>&1 | grep -E "^test result" | awk '{p+=$4; f+=$6} END {print p" passed "f" failed"}')
(cd $M/demo && timeout 900 bash run.sh > /tmp/seedconfirm-$P-$N-with.log 2>&1); WITH=$?
git checkout -q -- . ; git clean -fdq -e SEED -e target >/dev/null 2>&1
(cd $M/demo && timeout 900 bash run.sh > /tmp/seedconfirm-$P-$N-without.log 2>&1); WITHOUT=$?
git checkout -q -- . ; git clean -fdq -e SEED -e target >/dev/null 2>&1
echo "$P mutant$N: suite=[$SUITE] demo_with_patch_rc=$WITH demo_without_rc=$WITHOUT"
if [ "$WITH" != "0" ] && [ "$WITHOUT" = "0" ] && echo "$SUITE" | grep -q "397 passed 0 failed"; then
  D=/verif/seeded/$P-m$K
  mkdir -p $D && cp $M/patch.diff $D/ && rm -rf $D/demo && cp -r $M/demo $D/demo && cp $M/notes.md $D/notes.md
  python3 - <<PY
import json
json.dump({"property": "$P", "origin": "sub-agent given only the property text and a scratch worktree",
           "needs": open("$M/notes.md").read()[:1500],
           "confirmed": {"suite_with_patch": "$SUITE", "demo_with_patch_exit": $WITH, "demo_without_patch_exit": $WITHOUT,
                         "how": "bin/seedconfirm.sh in the scratch worktree $WT"}}, open("$D/meta.json", "w"), indent=1)
PY
  echo "KEPT $D"
else
  echo "REJECTED"
fi

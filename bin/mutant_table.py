#!/usr/bin/env python3
"""print a markdown table of the seeded changes and which quick checks report them (from seeded/*/result.json)"""
import glob
import json
import os

rows = []
for d in sorted(glob.glob("/verif/seeded/*-m[0-9]*")):
    name = os.path.basename(d)
    rp = os.path.join(d, "result.json")
    title = open(os.path.join(d, "notes.md")).readline().lstrip("# ").strip() if os.path.exists(os.path.join(d, "notes.md")) else ""
    res = json.load(open(rp))["checks"] if os.path.exists(rp) else {}
    caught = sorted(c for c, v in res.items() if v["violations"] > 0)
    clean = sorted(c for c, v in res.items() if v["violations"] == 0 and not v.get("tool_error"))
    tool = sorted(c for c, v in res.items() if v.get("tool_error"))
    note = ""
    mp = os.path.join(d, "meta.json")
    if os.path.exists(mp):
        note = json.load(open(mp)).get("note", "")
    rows.append((name, title[:110], ", ".join(caught) or "-", ", ".join(clean) or "-", ", ".join(tool), note))
print("| change | what it does | reported by | checked and silent | note |")
print("|---|---|---|---|---|")
for r in rows:
    print(f"| {r[0]} | {r[1]} | {r[2]} | {r[3]} | {r[5]}{(' tool error: ' + r[4]) if r[4] else ''} |")

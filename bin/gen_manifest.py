#!/usr/bin/env python3
"""Regenerate MANIFEST.json from the table below (single source of truth for the interface)."""
import json, os
V = "/verif"
CHECKS = {
 "C01": dict(text="TLC enumerates every program of each TypeGen family up to the stated depth together with type-directed probe values and the reference verdict (BeffSem.tla: membership under beff's runtime conventions, three-valued so that contested pairs never alarm); each program is compiled by the real compiler, run by the real client runtime on every probe, and the observation log is judged by TLC (Trace_Val.tla). Exhaustive within the bounds, for all interleavings there are none: the system is sequential, the quantifier is over programs x values.",
             ref="4/C01", note="Trusted: TLC, my TLA+ transcription of TypeScript membership (tsc is not available; contested pairs are don't-care), the driver's value codec (self-tested), the swc-based type stripper.",
             tech="TLC-enumerated programs + TLA+ reference semantics, replayed into the real compiler/runtime; trace validated by TLC"),
 "C11": dict(text="Same generation and replay as C01; the reference is StrictMem (BeffSem.tla, intersections of object types merged so that the keys declared at a position count all members) and the observation is validate(v, {disallowExtraProperties: true}).",
             ref="4/C11", note="As C01.", tech="TLC-enumerated programs + TLA+ strict-membership reference; trace validated by TLC"),
 "C03": dict(text="Same TLC-enumerated programs and probes as C01; the driver calls validate / safeParse / parse under all four ParseOptions combinations, re-validates and re-parses the returned data and re-encodes the input afterwards; TLC (Trace_Parse.tla) judges every logged call relationally: agreement of the three entry points, only the documented failure error may be thrown, data is a SubValue of the input with only Declared keys, accepted again by the same validator, stable under re-parse, equal up to key order between 'input' and 'sorted', input not mutated.",
             ref="4/C03", note="Trusted: TLC, the relations SubValue/Declared of Trace_Parse.tla as my reading of 'faithful projection', the driver's value codec. b.*-built parsers are not yet generated (compiled validators only).",
             tech="TLC-enumerated programs x 4 option sets; relational trace validation by TLC"),
 "C12": dict(text="Rejected calls from the same traces as C03: TLC (Trace_Parse.tla) checks 1..10 errors, that every path (recursively through union errors, parent paths prepended) resolves in the logged input or names a missing property of an existing object, that 'received' equals the value at that position, and that the message thrown by parse is the documented one and identical on a second call.",
             ref="4/C12", note="Trusted: TLC, the driver's syntactic tokenisation of path segments; Map keys / Set members that JSON cannot spell are addressed lossily by the implementation and treated as don't-care.",
             tech="TLC-enumerated programs; error-path resolution evaluated by TLC on logged errors"),
 "C02": dict(text="Same TLC-enumerated programs as C01 restricted to JSON probe documents; the driver prints schema() and schemaWithContext() under three ref-template/container configurations and logs the schemas and exported definitions as data; TLC (Trace_Schema.tla + JsonSchema.tla) evaluates well-formedness against the 2020-12 meta-schema rules for the emitted vocabulary, $ref resolution, and Valid(d, schema) for every document, and relates it to the logged validate() outcome and to StrictMem; non-JSON types must throw in every mode.",
             ref="4/C02", note="Trusted: TLC, my transcription of JSON Schema (calibrated on every (schema, document) pair against python jsonschema Draft 2020-12; a disagreement is a tool error), python re for the pattern keyword, format read as an assertion of the registered custom formats.",
             tech="TLC-enumerated programs; logged schemas judged by a TLA+ JSON Schema semantics (calibrated with python jsonschema)"),
 "C16": dict(text="SchemaCtx.tla is the SchemaPrintingContext state machine (collected definitions, in-progress marks, one action per schemaWithContext call, traversal transcribed from BaseRefRuntype.schema / ensureContextualDefinition incl. exceptions). TLC checks the design invariant (nothing left in progress, refs closed, definitions fresh and order independent, same outcome as a fresh context) on every call sequence up to the bound, with and without overrides; every sequence is replayed on a real context under three configurations and Trace_Ctx.tla requires each logged call to be a Call(p) step of the model (same collected names, same outcome) and judges the logged definitions against fresh-context definitions, $ref resolution and multiset-equality of exports.",
             ref="4/C16", note="Trusted: TLC; the fixed project of SchemaCtx.tla stands for 'sets of parsers sharing named and recursive types'; JSON equality of definitions.",
             tech="TLC model checking of the context state machine + replay of every call sequence + trace validation"),
 "C08": dict(text="Rewrite.tla is a state machine over programs whose actions are the rewrites named in the property (permutations of union/intersection members, properties, declarations; introducing, inlining, renaming aliases; generic identity wrapper; parentheses, readonly, comments, JSDoc; interface <-> object type; nesting / flattening unions; extracting variants; duplicating members). TLC enumerates every program reachable from 22 seed programs within MaxSteps and checks that each rule preserves the reference membership (so an alarm is never caused by one of my rules); every program is compiled and observed, and Trace_Rewrite.tla requires the validate vectors (default and strict) and hash256 of a class to equal those of its seed.",
             ref="4/C08", note="Trusted: TLC; equality of validators is observed on the seed's type-directed probes plus the common pool.",
             tech="TLC-enumerated rewrite classes (state machine over programs) replayed through the compiler; trace validated by TLC"),
 "C13": dict(text="Three parts. Writer: Sha256Writer.tla models buffering, block boundaries, FIPS padding and finished-ness around an uninterpreted compression function; TLC checks its invariants on all sequences of <= MaxWrites writes over 16 boundary sizes and every behaviour is replayed on the real Hash256Writer, whose bufferLength / bytesHashed / chunk count are validated after every step by Trace_Writer.tla and whose digest must equal node:crypto's. Separation: all TypeGen programs are observed on a common pool and Trace_Sep.tla requires equal digests to imply equal validate vectors. Invariance: the rewrite classes of C08 must have equal hash256 (and equal hash() under the rewrites C13 names).",
             ref="4/C13 and 1.3", note="Trusted: TLC; node:crypto for the digest value (bits of SHA-256 are outside TLA+); separation only sees behavioural differences on the common pool.",
             tech="TLC model of the streaming writer + behaviour replay + trace validation; digest separation and rewrite invariance judged by TLC"),
 "C15": dict(text="Same TLC-enumerated programs as C01 plus a describe family (non-identifier keys, named types referenced twice, recursive and tuple-recursive names, every non-JSON builtin); for each program the describe() text is compiled again (generation 2) and Trace_Describe.tla requires: the text compiles, generation-2 validate vectors and hash256 equal generation 1, describe() of generation 2 equals the text (fixpoint), no alias is declared twice.",
             ref="4/C15", note="Trusted: TLC; validators are compared on type-directed probes plus the common pool; declared names are extracted with a regular expression.",
             tech="TLC-enumerated programs; two-generation round trip judged by TLC on the trace"),
 "C14": dict(text="Watch.tla models the long-lived session: disk contents, the BUNDLER cache of parsed modules, the set of watched files, and the actions Edit(f, c) (a file changes; watched files are forwarded to update_file_content_inner and trigger a rebuild, as in commandeer.ts) and Rebuild (get_or_fetch_file: cache first, else read + parse + insert). TLC checks HistoryIndependent (every rebuild equals a fresh build of the current files) and CacheCoherent on the complete state graph (valid, unresolvable and unparsable variants, changing import graph). A shortest history to every state, extended by every possible next step, plus seeded random walks are replayed on the real beff-wasm code through the cfg(beff_verif) native host; Trace_Watch.tla requires each logged step to be the model's step (same cache keys, same watched set, same rebuild trigger) and the rebuild output to equal a fresh process's output byte for byte.",
             ref="4/C14", note="Trusted: TLC; the native host standing for the JS imports; the session binary's transcription of the watch loop; thread-local BUNDLER = one session per thread.",
             tech="TLC model checking of the session state machine + replay of an edge cover and random walks + trace validation"),
 "C04": dict(text="Three TLC-enumerated program domains: TsGrammar.tla (a state machine on source text whose actions are the productions of the whole TypeScript type syntax, supported or not, over a prelude of declarations incl. generic, recursive and cyclic aliases, enums, consts, interfaces, classes), MC_Mutate.tla (every (program, operator, position) mutation of the repository's 319 test programs: delete / duplicate declarations, rename references, swap / drop type arguments, alias chains, cyclic aliases, wrapping in utilities, truncation), and the unmutated corpus. Every project is compiled in a child process under a watchdog with a panic hook; Trace_Compile.tla requires the outcome to be code (which must load against the client runtime and build every requested parser) or at least one diagnostic whose file belongs to the project and whose line/column range lies inside that file; a panic, an abort (stack overflow) or a timeout is never accepted.",
             ref="4/C04", note="Trusted: TLC; 'promptly' = 10 s watchdog; stack overflow observed as death of the child process; multi-file layouts with missing / cyclic imports are exercised by C09's generator.",
             tech="TLC-enumerated grammar productions and mutation schedules compiled by the real compiler; outcomes judged by TLC"),
 "C10": dict(text="Determinism.tla generates projects with many symbols per table (every vector of export kinds, typeable or not, reached through a namespace import, named imports, an export-star hop or per-export namespace access) and states the property as a history variable: the first output observed for a project must equal every later one. All generated projects and the 319 corpus programs are compiled in several fresh OS processes (fresh hash seeds) and under several file-registration orders; Trace_Determinism.tla judges the digests of the emitted code / serialized diagnostics.",
             ref="4/C10", note="Trusted: TLC; OS process creation as the source of fresh hash seeds; detection of an order-dependent site is probabilistic in the number of processes (6 quick / 12 thorough).",
             tech="TLC-enumerated projects x real process spawns x registration orders; equality judged by TLC with a history variable"),
 "C05": dict(text="SemGen.tla generates the format-free fragment of the property (leaves, depth-1 constructors, nested compounds, recursive / mutually recursive / uninhabited named types) and the state machine over ordered pairs; SemLevel.tla defines inclusion of value sets: Sub(A, B) = every exact witness of A (over the abstraction of mentioned literals, keys and lengths plus fresh ones) is a structural member of B, with TLC-checked laws (witness soundness, reflexivity, completeness lemma against larger caps and one more unfolding). Every ordered pair is decided by the real engine through its public API (to_sem_type, is_subtype, is_same_type; child process with watchdog) and, for a seeded sample, by compiling `A extends B ? 1 : 2`; Trace_Sub.tla recomputes inclusion and compares.",
             ref="4/C05", note="Trusted: TLC; the witness abstraction (exact for the depth-1 fragment, lemma-checked for the rest); an Err from the engine ('recursive type' for a recursive alias whose body is a union) is the engine declining, not a decision.",
             tech="TLC-enumerated type pairs + set-theoretic reference in TLA+; engine answers validated as a trace by TLC"),
 "C06": dict(text="Decision-diagram layer: Bdd.tla transcribes from_node / union / intersect / diff / complement and bdd_to_dnf / dnf_to_bdd as a two-register state machine; TLC checks on every reachable pair of diagrams (2 atoms exhaustively; 3 atoms exhaustively in the thorough tier; 3 and 4 atoms by seeded simulation under a node bound) that each operation denotes the Boolean operation under all truth assignments and that the normal forms preserve meaning; every emitted state is replayed on the real BddOps and Trace_Bdd.tla evaluates the REAL results under all assignments (structural differences with equal meaning are reported as drift of the transcription). Semantic-type layer: for sampled ordered pairs of the SemGen fragment the engine's to_sem_type, union, intersect, diff and complement are dumped (ComplexSemType + atom tables) and Trace_Ops.tla evaluates the independent membership function SemDump!DMem over exact witnesses of both operands plus fixed extras, under the open and the exact reading of mapping atoms, and checks that the operand dumps mean what the source types mean.",
             ref="4/C06", note="Trusted: TLC; my transcription Bdd.tla (validated against the real code on every replayed state); the SemDump reading of atoms; formats are outside the fragment.",
             tech="TLC model checking of the transcribed BDD algebra + replay on BddOps + TLA+ membership function evaluated on dumped engine results"),
}
NA = []
def main():
    checks = []
    for pid, c in sorted(CHECKS.items()):
        checks.append({
            "property_id": pid,
            "quick_cmd": f"bin/check {pid} --tier quick",
            "thorough_cmd": f"bin/check {pid} --tier thorough",
            "evidence_file": f"/verif/evidence/{pid}.json",
            "replay_cmd_template": f"bin/check {pid} --replay {{path}}",
            "engine": "tlc",
            "level_claimed": {"category": "model_checking", "text": c["text"], "design_ref": c["ref"]},
            "level_note": c["note"],
            "technique": c["tech"],
        })
    m = {
        "version": 1,
        "setup_cmd": "bin/setup",
        "hooks": {
            "guard": "cfg(beff_verif)",
            "enable": "harness/.cargo/config.toml passes --cfg beff_verif to every crate of the harness build (path dependencies on /repo/packages/beff-core and beff-wasm)",
            "baseline_off_cmd": "cd /repo && cargo test --workspace --no-fail-fast --offline",
            "source_commits": ["2cad84a"],
            "add_only": True,
        },
        "engines": [{"name": "tlc", "path": "/verif/bin/tlcw", "serves_properties": sorted(CHECKS), "kind_free_text": "TLC 1.8.0 explicit-state model checker over /verif/spec; generation configs (mc/), trace specs (trace/)"}],
        "checks": checks,
        "not_applicable": NA,
        "notes": "bin/check <id> --tier quick|thorough; exit 0 held / 1 VIOLATION / 2 tool error. known_findings.json lists genuine defects (open / fixed).",
    }
    json.dump(m, open(os.path.join(V, "MANIFEST.json"), "w"), indent=1)
main()

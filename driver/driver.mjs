// Node driver: loads emitted beff modules against the (type-stripped) client runtime, runs the
// observation battery on value terms, and logs what it observes as ndjson. It never judges.
//
// usage: node driver.mjs <runtime-dir> <jobs.ndjson> <out.ndjson>
import fs from "node:fs";
import path from "node:path";
import { pathToFileURL } from "node:url";
import crypto from "node:crypto";

const [, , RT, JOBS, OUT] = process.argv;
const clientDir = path.join(RT, "node_modules", "@beff", "client");
const GLUE = fs.readFileSync((process.env.REPO_ROOT ?? "/repo") + "/packages/beff-wasm/bundled-code/codegen-v2.js", "utf8");

// ---------------------------------------------------------------- value codec
export function decode(t) {
  switch (t.k) {
    case "null": return null;
    case "undef": return undefined;
    case "bool": return t.b;
    case "num": return Number(t.n);
    case "str": return t.s;
    case "big": return BigInt(t.n);
    case "date": return new Date(t.d === "invalid" ? NaN : Number(t.d));
    case "fn": return function () {};
    case "sym": return Symbol.for(t.s);
    case "ta": return new globalThis[t.c](t.c.startsWith("Big") ? t.es.map((x) => BigInt(x)) : t.es);
    case "map": return new Map(t.es.map((e) => [decode(e.mk), decode(e.mv)]));
    case "set": return new Set(t.es.map(decode));
    case "arr": {
      // {k: "hole"}: an index that is not there (sparse array)
      const a = new Array(t.es.length);
      t.es.forEach((e, i) => { if (e.k !== "hole") a[i] = decode(e); });
      return a;
    }
    case "obj": {
      // "inh": every property is inherited from a (marked) prototype object, the object itself has no own property
      const holder = t.c === "null" ? Object.create(null) : t.c === "inst" ? new (class Inst {})() : {};
      for (const p of t.ps) {
        Object.defineProperty(holder, p.key, { value: decode(p.v), enumerable: true, writable: true, configurable: true });
      }
      if (t.c === "inh") {
        Object.defineProperty(holder, INH, { value: true, enumerable: false });
        return Object.create(holder);
      }
      return holder;
    }
    case "other": return /re/;
  }
  throw new Error("decode: unknown term " + JSON.stringify(t));
}
function numTok(n) {
  if (Number.isNaN(n)) return "NaN";
  if (Object.is(n, -0)) return "-0";
  return String(n);
}
const INH = Symbol("beff-verif-inherited");
export function encode(v, depth = 0) {
  if (depth > 64) return { k: "other", d: "deep" };
  if (v === null) return { k: "null" };
  if (v === undefined) return { k: "undef" };
  switch (typeof v) {
    case "boolean": return { k: "bool", b: v };
    case "number": return { k: "num", n: numTok(v) };
    case "string": return { k: "str", s: v };
    case "bigint": return { k: "big", n: String(v) };
    case "function": return { k: "fn" };
    case "symbol": return { k: "sym", s: String(v.description) };
  }
  if (v instanceof Date) return { k: "date", d: Number.isNaN(v.getTime()) ? "invalid" : String(v.getTime()) };
  if (ArrayBuffer.isView(v) && !(v instanceof DataView))
    return { k: "ta", c: v.constructor.name, es: Array.from(v, (x) => (typeof x === "bigint" ? Number(x) : x)) };
  if (v instanceof Map) return { k: "map", es: [...v].map(([a, b]) => ({ mk: encode(a, depth + 1), mv: encode(b, depth + 1) })) };
  if (v instanceof Set) return { k: "set", es: [...v].map((x) => encode(x, depth + 1)) };
  if (Array.isArray(v)) return { k: "arr", es: Array.from({ length: v.length }, (_, i) => (i in v ? encode(v[i], depth + 1) : { k: "hole" })) };
  if (v instanceof RegExp) return { k: "other", d: "regexp" };
  const proto = Object.getPrototypeOf(v);
  if (proto !== null && proto[INH] === true && Object.getPrototypeOf(proto) === Object.prototype) {
    const own = Object.keys(v).map((key) => ({ key, v: encode(v[key], depth + 1) }));
    const inherited = Object.keys(proto).map((key) => ({ key, v: encode(proto[key], depth + 1) }));
    return { k: "obj", c: own.length === 0 ? "inh" : "inhown", ps: inherited.concat(own) };
  }
  const c = proto === null ? "null" : proto === Object.prototype ? "plain" : "inst";
  return { k: "obj", c, ps: Object.keys(v).map((key) => ({ key, v: encode(v[key], depth + 1) })) };
}

// ---------------------------------------------------------------- formats registered identically in the spec
export const STRING_FORMATS = {
  f1: (s) => s.startsWith("a"),
  f2: (s) => s.length <= 2,
};
export const NUMBER_FORMATS = {
  n1: (n) => n >= 0,
  n2: (n) => Number.isInteger(n),
  // the same NAME as a string format: the two registries are independent
  f1: (n) => n >= 1,
};

// ---------------------------------------------------------------- helpers
const errMsg = (e) => (e instanceof Error ? "Error:" + e.message : "NonError:" + String(e));
function tri(f) {
  try {
    const r = f();
    return r === true ? "T" : r === false ? "F" : "X:" + typeof r;
  } catch (e) {
    return "E:" + errMsg(e);
  }
}
function parseSeg(raw) {
  // purely syntactic projection of a path segment
  const seg = { raw, idx: -1, fn: "", arg: { k: "undef" }, argok: false };
  let m = /^\[(\d+)\]$/.exec(raw);
  if (m) seg.idx = Number(m[1]);
  m = /^(key|value|item)\((.*)\)$/s.exec(raw);
  if (m) {
    seg.fn = m[1];
    try {
      seg.arg = encode(JSON.parse(m[2]));
      seg.argok = true;
    } catch {
      // safeStringify renders bigint as <digits>n
      if (/^-?\d+n$/.test(m[2])) {
        seg.arg = { k: "big", n: m[2].slice(0, -1) };
        seg.argok = true;
      } else seg.argok = false;
    }
  }
  return seg;
}
function encodeErrors(errs, depth = 0) {
  if (!Array.isArray(errs))
    return [{ path: [parseSeg("<errors is not an array>")], msg: "<errors is not an array>", received: { k: "undef" }, union: false, errs: [] }];
  return errs.map((e) => ({
    path: Array.isArray(e.path) ? e.path.map((s) => parseSeg(String(s))) : [{ raw: "<no path>", idx: -1, fn: "", arg: { k: "undef" }, argok: false }],
    msg: typeof e.message === "string" ? e.message : "",
    received: encode(e.received),
    union: e.isUnionError === true,
    errs: e.isUnionError === true && depth < 8 ? encodeErrors(e.errors, depth + 1) : [],
  }));
}
const OPTS = [
  { name: "dd", o: undefined },
  { name: "ds", o: { objectKeyOrder: "sorted" } },
  { name: "sd", o: { disallowExtraProperties: true } },
  { name: "ss", o: { disallowExtraProperties: true, objectKeyOrder: "sorted" } },
];

// JSON-schema documents are logged as value terms too (same codec), so that TLC sees one vocabulary.
function schemaObs(f) {
  try {
    const s = f();
    return { ok: true, s: encode(s), json: s, msg: "" };
  } catch (e) {
    return { ok: false, s: { k: "undef" }, json: null, msg: errMsg(e) };
  }
}

let modCounter = 0;
export async function loadModule(code, reqS, reqN) {
  const text = [
    GLUE,
    `const RequiredStringFormats = ${JSON.stringify(reqS ?? [])};`,
    `const RequiredNumberFormats = ${JSON.stringify(reqN ?? [])};`,
    code,
    "export default { buildParsers };",
  ].join("\n");
  const dir = path.join(RT, "mods");
  fs.mkdirSync(dir, { recursive: true });
  const file = path.join(dir, `m${process.pid}_${modCounter++}.mjs`);
  fs.writeFileSync(file, text);
  try {
    const m = await import(pathToFileURL(file).href);
    return m.default;
  } finally {
    fs.unlinkSync(file);
  }
}

export async function client() {
  return await import(pathToFileURL(path.join(clientDir, "codegen-v2.js")).href);
}

// ---------------------------------------------------------------- observation battery
function observeProbe(parser, term, ops) {
  const rec = { v: term };
  if (ops.has("validate")) {
    rec.val = tri(() => parser.validate(decode(term)));
    rec.vals = tri(() => parser.validate(decode(term), { disallowExtraProperties: true }));
    // the same object in alternating modes: a verdict must not depend on the calls made before (hist = d, s, d, s)
    const same = decode(term);
    const strict = { disallowExtraProperties: true };
    rec.hist = [tri(() => parser.validate(same)), tri(() => parser.validate(same, strict)),
                tri(() => parser.validate(same)), tri(() => parser.validate(same, strict))].join("");
    // and the other way round on another object (strict first)
    const same2 = decode(term);
    rec.hist2 = [tri(() => parser.validate(same2, strict)), tri(() => parser.validate(same2)), tri(() => parser.validate(same2, strict))].join("");
  }
  if (ops.has("parse")) {
    rec.sp = OPTS.map(({ name, o }) => {
      const input = decode(term);
      const r = { opt: name, ok: "", data: { k: "undef" }, errs: [], thrown: "", pthrown: "", pdata: { k: "undef" }, pret: false,
                  after: { k: "undef" }, reval: "", again: { k: "undef" }, againok: "", printed: "", printed2: "", nerrs: 0 };
      r.val = tri(() => parser.validate(input, o));
      try {
        const sp = parser.safeParse(input, o);
        r.ok = sp.success === true ? "T" : sp.success === false ? "F" : "X";
        if (sp.success === true) {
          r.data = encode(sp.data);
          r.reval = tri(() => parser.validate(sp.data, o));
          try {
            const sp2 = parser.safeParse(sp.data, o);
            r.againok = sp2.success === true ? "T" : "F";
            if (sp2.success === true) r.again = encode(sp2.data);
          } catch (e) {
            r.againok = "E:" + errMsg(e);
          }
        } else if (sp.success === false) {
          r.errs = encodeErrors(sp.errors);
          r.nerrs = Array.isArray(sp.errors) ? sp.errors.length : -1;
        }
      } catch (e) {
        r.ok = "E";
        r.thrown = errMsg(e);
      }
      try {
        const d = parser.parse(input, o);
        r.pret = true;
        r.pdata = encode(d);
      } catch (e) {
        r.pthrown = errMsg(e);
        // rendering must be deterministic: a second parse must throw the same message
        try {
          parser.parse(input, o);
          r.printed2 = "<returned>";
        } catch (e2) {
          r.printed2 = errMsg(e2);
        }
      }
      r.after = encode(input);
      return r;
    });
  }
  return rec;
}

// ---------------------------------------------------------------- level (A): runtime trees and hash256 token streams
// Purely syntactic projection of the live validator objects (TypeScript `private` is erased) into the tree terms of
// spec/algo/Runtime.tla; named types are collected into a table in the order they are first reached.
export function reflectTree(rt, cg, named) {
  const R = (x) => reflectTree(x, cg, named);
  if (rt instanceof cg.BaseRefRuntype) {
    const n = rt.refName;
    if (!named.has(n)) {
      named.set(n, null);
      const table = rt.getNamedRuntypes();
      const to = Object.prototype.hasOwnProperty.call(table, n) ? table[n] : undefined;
      named.set(n, to == null ? { c: "missing" } : R(to));
    }
    return { c: "ref", n };
  }
  if (rt instanceof cg.OptionalFieldRuntype) return { c: "opt", t: R(rt.t) };
  if (rt instanceof cg.TypeofRuntype) return { c: "typeof", name: String(rt.typeName) };
  if (rt instanceof cg.AnyRuntype) return { c: "any" };
  if (rt instanceof cg.NullishRuntype) return { c: "nullish", d: String(rt.description) };
  if (rt instanceof cg.NeverRuntype) return { c: "never" };
  if (rt instanceof cg.ConstRuntype) return { c: "const", v: encode(rt.value === undefined ? null : rt.value) };
  if (rt instanceof cg.RegexRuntype) return { c: "regex", d: String(rt.description) };
  if (rt instanceof cg.DateRuntype) return { c: "date" };
  if (rt instanceof cg.BigIntRuntype) return { c: "bigint" };
  if (rt instanceof cg.TypedArrayRuntype) return { c: "ta", ctor: String(rt.ctorName) };
  if (rt instanceof cg.StringWithFormatRuntype) return { c: "sfmt", fs: [...rt.formats] };
  if (rt instanceof cg.NumberWithFormatRuntype) return { c: "nfmt", fs: [...rt.formats] };
  if (rt instanceof cg.AnyOfConstsRuntype) return { c: "consts", vs: rt.values.map((v) => encode(v === undefined ? null : v)) };
  if (rt instanceof cg.TupleRuntype) return { c: "tuple", prefix: rt.prefix.map(R), rest: rt.rest == null ? [] : [R(rt.rest)] };
  if (rt instanceof cg.AllOfRuntype) return { c: "allOf", ms: rt.schemas.map(R) };
  if (rt instanceof cg.AnyOfRuntype) return { c: "anyOf", ms: rt.schemas.map(R) };
  if (rt instanceof cg.ArrayRuntype) return { c: "array", e: R(rt.itemParser) };
  if (rt instanceof cg.MapRuntype) return { c: "map", kt: R(rt.keyParser), vt: R(rt.valueParser) };
  if (rt instanceof cg.SetRuntype) return { c: "set", e: R(rt.itemParser) };
  if (rt instanceof cg.AnyOfDiscriminatedRuntype)
    return { c: "disc", d: String(rt.discriminator), ms: rt.schemas.map(R),
             mapping: Object.keys(rt.mapping).map((key) => ({ key, rt: R(rt.mapping[key]) })) };
  if (rt instanceof cg.ObjectRuntype)
    return { c: "object", ps: Object.keys(rt.properties).map((key) => ({ key, rt: R(rt.properties[key]) })),
             ix: rt.indexedPropertiesParser.map((p) => ({ kt: R(p.key), vt: R(p.value) })) };
  return { c: "unknown", name: String(rt?.constructor?.name) };
}
function treeKids(t) {
  switch (t.c) {
    case "tuple": return [...t.prefix, ...t.rest];
    case "allOf": case "anyOf": return t.ms;
    case "array": case "set": return [t.e];
    case "map": return [t.kt, t.vt];
    case "opt": return [t.t];
    case "disc": return [...t.ms, ...t.mapping.map((p) => p.rt)];
    case "object": return [...t.ps.map((p) => p.rt), ...t.ix.flatMap((p) => [p.kt, p.vt])];
    default: return [];
  }
}
function treeStrings(t, keys, consts) {
  // every string the implementation sorts: property / mapping keys and format names; sort keys of constants
  if (t.c === "object") for (const p of t.ps) keys.add(p.key);
  if (t.c === "disc") for (const p of t.mapping) keys.add(p.key);
  if (t.c === "sfmt" || t.c === "nfmt") for (const f of t.fs) keys.add(f);
  if (t.c === "consts")
    for (const v of t.vs) consts.add(v.k === "null" ? "null:" : v.k === "str" ? "string:" + v.s : v.k === "num" ? "number:" + v.n : "boolean:" + String(v.b));
  for (const k of treeKids(t)) treeStrings(k, keys, consts);
}
let HASHMOD = null;
async function recordTokens(parser) {
  // the calls hash256() makes on its Hash256Writer, recorded at the writer's public update methods
  HASHMOD = HASHMOD ?? (await import(pathToFileURL(path.join(clientDir, "hash.js")).href));
  const proto = HASHMOD.Hash256Writer.prototype;
  const toks = [];
  const saved = {};
  const wrap = (m, f) => {
    saved[m] = proto[m];
    proto[m] = function (...a) { toks.push(f(...a)); return saved[m].apply(this, a); };
  };
  wrap("updateTag", (x) => ({ k: "tag", s: String(x) }));
  wrap("updateString", (x) => ({ k: "str", s: String(x) }));
  wrap("updateNumber", (x) => ({ k: "num", s: numTok(x) }));
  wrap("updateBoolean", (x) => ({ k: "bool", b: x === true }));
  wrap("updateNull", () => ({ k: "null" }));
  let hex = "", msg = "";
  try { hex = parser.hash256(); } catch (e) { msg = errMsg(e); }
  finally { for (const m of Object.keys(saved)) proto[m] = saved[m]; }
  return { toks, hex, msg };
}
async function treeObs(parser, cg) {
  const named = new Map();
  const tree = reflectTree(parser._runtype, cg, named);
  const table = [...named].map(([n, rt]) => ({ n, rt }));
  const keys = new Set(), consts = new Set();
  treeStrings(tree, keys, consts);
  for (const e of table) treeStrings(e.rt, keys, consts);
  const h = await recordTokens(parser);
  return { tree, named: table, korder: [...keys].sort(), corder: [...consts].sort((a, b) => a.localeCompare(b)), toks: h.toks, hex: h.hex, hmsg: h.msg };
}

async function runJob(job, cg) {
  const out = { id: job.id, load: "ok", loadmsg: "", probes: [], names: [] };
  let parsers;
  try {
    if (job.build) {
      // a parser built at run time with the client's builder API; named types get names unique to the job
      const bm = await import(pathToFileURL(path.join(clientDir, "b.js")).href);
      const named = new Map();
      const N = (name, p) => {
        if (!named.has(name)) named.set(name, cg.createNamedType(`B${process.pid}_${job.id}_${name}`, p));
        return named.get(name);
      };
      parsers = { [job.root]: new Function("b", "buntyped", "N", "return " + job.build)(bm.b, bm.buntyped, N) };
    } else {
      const mod = await loadModule(job.code, job.reqS, job.reqN);
      parsers = mod.buildParsers({ stringFormats: STRING_FORMATS, numberFormats: NUMBER_FORMATS });
    }
    out.names = Object.keys(parsers);
  } catch (e) {
    out.load = "fail";
    out.loadmsg = errMsg(e);
    return out;
  }
  const ops = new Set(job.ops ?? ["validate"]);
  const parser = parsers[job.root];
  if (parser == null) {
    out.load = "noroot";
    return out;
  }
  for (const term of job.probes ?? []) out.probes.push(observeProbe(parser, term, ops));
  if (ops.has("hash")) {
    out.h32 = tri2(() => parser.hash());
    out.h256 = tri2(() => parser.hash256());
  }
  if (ops.has("tree")) {
    try { out.rt = await treeObs(parser, cg); } catch (e) { out.rt = { error: errMsg(e) }; }
  }
  if (ops.has("describe")) out.describe = tri2(() => parser.describe());
  if (ops.has("schema")) {
    out.flat = schemaObs(() => parser.schema());
    out.ctx = (job.ctxcfgs ?? [{ refPathTemplate: "#/$defs/{name}", definitionContainerKey: "$defs" }]).map((cfg) => {
      const pc = new cg.SchemaPrintingContext(cfg);
      const s = schemaObs(() => parser.schemaWithContext(pc));
      let defs;
      try {
        defs = pc.exportDefinitions();
      } catch (e) {
        defs = { __error: errMsg(e) };
      }
      return { cfg, schema: s, defs: encode({ ...(pc.collectedDefinitions ?? {}) }), defsjson: { ...(pc.collectedDefinitions ?? {}) },
               exported: defs, inprog: Object.keys(pc.inProgressDefinitions ?? {}) };
    });
  }
  return out;
}
// C16: replay call sequences on real SchemaPrintingContexts; log the projected state after every call
async function runCtxSeq(job, cg) {
  const out = { id: job.id, load: "ok", loadmsg: "", fresh: [], runs: [] };
  let parsers;
  try {
    const mod = await loadModule(job.code, [], []);
    parsers = mod.buildParsers({ stringFormats: STRING_FORMATS, numberFormats: NUMBER_FORMATS });
  } catch (e) {
    out.load = "fail";
    out.loadmsg = errMsg(e);
    return out;
  }
  const mk = (cfg) =>
    new cg.SchemaPrintingContext({
      refPathTemplate: cfg.refPathTemplate,
      definitionContainerKey: cfg.definitionContainerKey,
      ...(cfg.overrides ? { namedTypeSchemaOverrides: Object.fromEntries(Object.entries(cfg.overrides).map(([k, v]) => [k, parsers[v]])) } : {}),
    });
  const step = (pc, p) => {
    const s = schemaObs(() => parsers[p].schemaWithContext(pc));
    return { p, ok: s.ok, msg: s.msg, schema: s.s, schemajson: s.json,
             defs: encode({ ...(pc.collectedDefinitions ?? {}) }), defsjson: { ...(pc.collectedDefinitions ?? {}) },
             inprog: Object.keys(pc.inProgressDefinitions ?? {}) };
  };
  job.cfgs.forEach((cfg, ci) => {
    for (const p of job.parsers) out.fresh.push({ cfg: ci, ...step(mk(cfg), p) });
  });
  for (const sq of job.seqs) {
    const pc = mk(job.cfgs[sq.cfg]);
    out.runs.push({ sid: sq.sid, cfg: sq.cfg, steps: sq.calls.map((p) => step(pc, p)) });
  }
  return out;
}

// C13 writer: replay sequences of write sizes on the real Hash256Writer, logging its projected state
async function runWriter(job) {
  const { Hash256Writer } = await import(pathToFileURL(path.join(clientDir, "hash.js")).href);
  const events = [];
  for (const beh of job.behaviours) {
    const w = new Hash256Writer();
    let chunks = 0;
    const orig = w.processChunk.bind(w);
    w.processChunk = (c) => { chunks++; return orig(c); };
    const h = crypto.createHash("sha256");
    events.push({ ev: "new" });
    let off = 0;
    for (const wr of beh.writes) {
      if (wr.k === "raw") {
        const n = wr.c;
        const data = new Uint8Array(n);
        for (let i = 0; i < n; i++) data[i] = (off + i * 7 + 13) & 255;
        off += n;
        w.updateBytes(data);
        h.update(data);
        events.push({ ev: "upd", n, buf: w.bufferLength, tot: w.bytesHashed, blk: chunks });
      } else {
        // a token of c characters of w UTF-8 bytes each, written through the public update method; the oracle hashes the
        // layout of Sha256Writer!Token: kind byte, 32-bit big-endian byte length, UTF-8 bytes
        const ch = { 1: ["a", "Z", "7"], 2: ["\u00e9", "\u00df", "\u03bb"], 3: ["\u767a", "\u9001", "\u30c6"], 4: ["\u{1F600}", "\u{1F680}", "\u{10348}"] }[wr.w];
        let str = "";
        for (let i = 0; i < wr.c; i++) str += ch[(off + i) % 3];
        off += wr.c;
        const bytes = Buffer.from(str, "utf8");
        if (bytes.length !== wr.c * wr.w) throw new Error("driver: token of unexpected byte length");
        const head = Buffer.alloc(5);
        head[0] = wr.k === "tag" ? 1 : 2;
        head.writeUInt32BE(bytes.length, 1);
        if (wr.k === "tag") w.updateTag(str); else w.updateString(str);
        h.update(head);
        h.update(bytes);
        events.push({ ev: "tok", k: wr.k, c: wr.c, w: wr.w, buf: w.bufferLength, tot: w.bytesHashed, blk: chunks });
      }
    }
    let hex = "";
    try { hex = w.digestHex(); } catch (e) { hex = "threw:" + errMsg(e); }
    let threwAfter = false;
    try { w.updateBytes(new Uint8Array(1)); } catch { threwAfter = true; }
    events.push({ ev: "digest", blk: chunks, hex, oracle: h.digest("hex"), threwAfter });
  }
  return { id: job.id, events };
}

function tri2(f) {
  try {
    return { ok: true, v: String(f()), msg: "" };
  } catch (e) {
    return { ok: false, v: "", msg: errMsg(e) };
  }
}

function selftest(terms) {
  for (const t of terms) {
    const back = encode(decode(t));
    if (JSON.stringify(back) !== JSON.stringify(t)) {
      throw new Error("codec round-trip failed: " + JSON.stringify(t) + " -> " + JSON.stringify(back));
    }
  }
}

async function main() {
  const cg = await client();
  const outFd = fs.openSync(OUT, "w");
  const lines = fs.readFileSync(JOBS, "utf8").split("\n").filter((l) => l.trim().length > 0);
  for (const line of lines) {
    const job = JSON.parse(line);
    let res;
    try {
      if (job.kind === "selftest") {
        selftest(job.terms);
        res = { id: job.id, selftest: "ok", n: job.terms.length };
      } else if (job.kind === "writer") {
        res = await runWriter(job);
      } else if (job.kind === "ctxseq") {
        res = await runCtxSeq(job, cg);
      } else {
        res = await runJob(job, cg);
      }
    } catch (e) {
      res = { id: job.id, driver_error: errMsg(e) + "\n" + (e?.stack ?? "") };
    }
    fs.writeSync(outFd, JSON.stringify(res, (k, v) => (typeof v === "bigint" ? String(v) : v)) + "\n");
  }
  fs.closeSync(outFd);
}

if (process.argv[1] && path.resolve(process.argv[1]) === path.resolve(new URL(import.meta.url).pathname)) {
  main().catch((e) => {
    console.error(e);
    process.exit(2);
  });
}

"""Shared helpers for the semantic-engine checks (C05, C06, C07): fragment generation, semtool batches with watchdog."""
import json
import os
import subprocess

import vlib
from vlib import ToolError, log


def fragment(tag, level, module="MC_Sub.tla", want_pairs=True):
    d = os.path.join(vlib.WORK, tag)
    os.makedirs(d, exist_ok=True)
    cfg = os.path.join(d, "MC_Sub.cfg")
    vlib.write_cfg(cfg, spec="SSpec", constants={"Level": level}, invariants=["RefLaws"] + (["EmitInv"] if want_pairs else []))
    r = vlib.run_tlc(cfg, os.path.join(vlib.VERIF, "spec/mc", module), workers=14, heap="10g", tag="sub", timeout=3400)
    if r["violated"] or not r["ok"]:
        raise ToolError("SemGen / SemLevel: a law of the reference semantics fails (spec bug):\n" + r["tail"])
    t = vlib.tagged_lines(r["lines"], "TYPES")[0]
    pairs = vlib.tagged_lines(r["lines"], "PAIR") if want_pairs else []
    return t["frag"], t["env"], pairs, r


def program(frag, env, extra=""):
    decls = []
    for d in env:
        decls.append(f"type {d['n']} = {vlib.ts(d['ty'])};")
    for i, t in enumerate(frag, 1):
        decls.append(f"type X{i} = {vlib.ts(t)};")
    names = ", ".join(f"X{i}: X{i}" for i in range(1, len(frag) + 1))
    return "\n".join(decls) + "\n" + extra + f"parse.buildParsers<{{ {names} }}>();\n"


def semtool(req, timeout=120):
    """one request in a fresh child process; returns response dict or {'outcome': 'timeout'|'abort'}"""
    try:
        p = subprocess.run([vlib.bin_path("semtool")], input=json.dumps(req) + "\n", stdout=subprocess.PIPE,
                           stderr=subprocess.DEVNULL, text=True, timeout=timeout)
    except subprocess.TimeoutExpired:
        return {"outcome": "timeout"}
    line = p.stdout.strip().splitlines()
    if p.returncode != 0 or not line:
        return {"outcome": "abort", "rc": p.returncode}
    return json.loads(line[-1])


def semtool_ops(base_req, ops, chunk=4000, timeout=120):
    """run ops in chunks; a chunk that kills or hangs the engine is bisected down to the offending op"""
    results = [None] * len(ops)
    conv_errors = set()

    def go(lo, hi):
        req = dict(base_req, ops=ops[lo:hi])
        r = semtool(req, timeout=timeout if hi - lo > 1 else 90)   # a single question gets ample time: load must not look like divergence
        if r.get("outcome") == "ok":
            if r.get("errors"):
                conv_errors.update(r["errors"])
            for k, x in enumerate(r["results"]):
                results[lo + k] = x
            return
        if r.get("outcome") == "diags":
            raise ToolError(f"the fragment program does not compile: {r.get('messages')}")
        if hi - lo == 1:
            results[lo] = {"ok": False, "err": r.get("outcome", "?") + ":" + str(r.get("msg", ""))[:200], "fatal": r.get("outcome")}
            return
        mid = (lo + hi) // 2
        go(lo, mid)
        go(mid, hi)

    import concurrent.futures as cf
    spans = [(lo, min(lo + chunk, len(ops))) for lo in range(0, len(ops), chunk)]
    with cf.ThreadPoolExecutor(max_workers=12) as ex:
        list(ex.map(lambda s: go(*s), spans))
    for e in sorted(conv_errors)[:10]:
        log(f"[semtool] conversion error: {e}")
    return results

"""C08 (and the invariance part of C13): meaning-preserving rewrites do not change validators / digests.

Rewrite.tla is the state machine over programs (actions = the rewrites named in C08). TLC enumerates all programs
reachable from each seed within MaxSteps (and checks that my rules preserve the reference membership); every
program is compiled and observed; Trace_Rewrite.tla requires the observables of a class to equal the seed's."""
import json
import os
import time

import vlib
from vlib import ToolError, log

NSEEDS = 27


def generate(tag, maxsteps, seeds, simulate=None):
    d = os.path.join(vlib.WORK, tag)
    os.makedirs(d, exist_ok=True)
    cfg = os.path.join(d, "MC_Rewrite.cfg")
    vlib.write_cfg(cfg, spec="Spec", constants={"MaxSteps": maxsteps, "SeedSet": "<- " + seeds},
                   invariants=["RulesPreserveMeaning", "EmitInv"])
    extra = []
    if simulate:
        extra = ["-simulate", f"num={simulate}", "-depth", str(maxsteps + 1), "-seed", str(vlib.seed())]
    r = vlib.run_tlc(cfg, os.path.join(vlib.VERIF, "spec/mc/MC_Rewrite.tla"), workers=1 if simulate else 12, heap="8g",
                     tag="rewrite", extra=extra, timeout=3000)
    if r["violated"] or (not simulate and not r["ok"]):
        raise ToolError("Rewrite.tla: a rewrite rule does not preserve the reference membership (spec bug):\n" + r["tail"])
    states = vlib.tagged_lines(r["lines"], "STATE")
    return states, r


def collect(tier, tag, seeds="AllSeeds"):
    if tier == "quick":
        states, r = generate(tag, 1, seeds)
        st = {"states": r["states"], "distinct": r["distinct"], "depth": 1}
    else:
        # every pair of rewrites from the hand-picked seeds, every single rewrite from the twin seeds (two rewrites from each of
        # them would be some 3 * 10^5 programs), and random walks of six rewrites from all seeds
        states, r = generate(tag, 2, "HandOnly")
        one, r1 = generate(tag + "-twins", 1, "AllSeeds")
        states += [x for x in one if x["seed"] > max(y["seed"] for y in states)]
        st = {"states": r["states"] + r1["states"], "distinct": r["distinct"] + r1["distinct"], "depth": 2}
        sim, sr = generate(tag + "-sim", 6, "AllSeeds", simulate=400)
        states += sim
        st["states"] += sr["states"]
        st["simulated_walks_depth6"] = 400
    # dedupe identical programs within a seed, seeds first
    seen, uniq = set(), []
    for s in sorted(states, key=lambda s: (s["steps"], s["seed"])):
        key = (s["seed"], json.dumps(s["env"], sort_keys=True), json.dumps(s["ty"], sort_keys=True), tuple(sorted(s["rules"])) if s["steps"] else ())
        if key in seen:
            continue
        seen.add(key)
        uniq.append(s)
    return uniq, st


def observe(states, tag):
    probes = {s["seed"]: s["probes"] for s in states if s["steps"] == 0}
    reqs = []
    for i, s in enumerate(states):
        s["_src"] = vlib.render_program(s["env"], s["ty"])
        reqs.append(vlib.compile_req(i, [("entry.ts", s["_src"])]))
    comp = vlib.compile_all(reqs)
    jobs = []
    for i, (s, c) in enumerate(zip(states, comp)):
        s["_comp"] = c
        if c["outcome"] == "code":
            jobs.append({"id": i, "code": c["code"], "root": "T", "probes": probes[s["seed"]], "ops": ["validate", "hash"]})
    obs = vlib.run_driver(jobs, tag)
    recs = []
    for i, s in enumerate(states):
        c = s["_comp"]
        rec = {"ev": "state", "id": i, "seed": s["seed"], "steps": s["steps"], "rule": s["rule"], "rules": s["rules"],
               "outcome": c["outcome"], "vec": "", "h256": "", "h32": ""}
        o = obs.get(i)
        if c["outcome"] == "code" and o is not None:
            if o["load"] != "ok":
                rec["outcome"] = "load-failed"
            else:
                rec["vec"] = "".join(p["val"][0] for p in o["probes"]) + "|" + "".join(p["vals"][0] for p in o["probes"])
                rec["h256"] = o["h256"]["v"] if o["h256"]["ok"] else "threw:" + o["h256"]["msg"]
                rec["h32"] = o["h32"]["v"] if o["h32"]["ok"] else "threw:" + o["h32"]["msg"]
        recs.append(rec)
    return recs


def judge(recs, tag, open_devs=()):
    d = os.path.join(vlib.WORK, tag)
    os.makedirs(d, exist_ok=True)
    openf = os.path.join(d, "open.ndjson")
    with open(openf, "w") as f:
        f.write(json.dumps({"devs": sorted(open_devs)}) + "\n")
    # one trace per group of seeds (a class must stay in one trace, seed line first)
    groups = {}
    for r in recs:
        groups.setdefault(r["seed"] % 8, []).append(r)
    import concurrent.futures as cf
    parts = list(groups.values())
    paths = []
    for s, part in enumerate(parts):
        part.sort(key=lambda r: (r["steps"] != 0, r["id"]))
        p = os.path.join(d, f"rtrace{s}.ndjson")
        with open(p, "w") as f:
            for r in part:
                f.write(json.dumps(r) + "\n")
        paths.append(p)

    def one(s):
        return vlib.validate_trace(paths[s], os.path.join(vlib.VERIF, "spec/trace/Trace_Rewrite.tla"),
                                   os.path.join(vlib.VERIF, "spec/trace/Trace_Simple.cfg"), heap="3g", tag=f"{tag}-{s}",
                                   env_extra={"OPEN": openf})

    judged, consumed, states = [], 0, 0
    with cf.ThreadPoolExecutor(max_workers=len(parts)) as ex:
        for s, r in enumerate(ex.map(one, range(len(parts)))):
            cons = vlib.tagged_lines(r["lines"], "CONSUMED")
            if not cons or cons[0]["n"] != cons[0]["of"] or cons[0]["of"] != len(parts[s]):
                raise ToolError(f"rewrite trace {s} not fully consumed: {cons}\n{r['tail']}")
            consumed += cons[0]["n"]
            states += r["distinct"]
            for j in vlib.tagged_lines(r["lines"], "JUDGED"):
                j["_rec"] = parts[s][j["line"] - 1]
                judged.append(j)
    return judged, consumed, states


KINDS = {"C08": {"validate-vector-differs", "hash256-differs", "rewritten-program-does-not-compile", "seed-does-not-compile"},
         "C13": {"hash256-differs", "hash-differs"}}


def negative_control(recs, tag):
    import copy
    seed0 = next(r for r in recs if r["steps"] == 0 and r["outcome"] == "code")
    other = next(r for r in recs if r["steps"] > 0 and r["seed"] == seed0["seed"] and r["outcome"] == "code")
    bad = copy.deepcopy(other)
    bad["h256"] = "0" * 64
    v = list(bad["vec"])
    v[0] = "T" if v[0] == "F" else "F"
    bad["vec"] = "".join(v)
    jd, _, _ = judge([copy.deepcopy(seed0), bad], tag + "-neg")
    kinds = {j["kind"] for j in jd}
    if not {"validate-vector-differs", "hash256-differs"} <= kinds:
        raise ToolError(f"binding self-test failed: corrupted rewrite observation accepted ({kinds})")
    return "rejected: " + ", ".join(sorted(kinds))


def run_rewrite(prop, tier, tag):
    # C13's quick tier takes the hand-picked seeds (the twin seeds are C08's quick tier and both thorough tiers): the digest
    # invariance of C13 is additionally covered by the separation and level-(A) parts of its own check
    states, gst = collect(tier, tag, "HandOnly" if prop == "C13" and tier == "quick" else "AllSeeds")
    log(f"[rewrite] {len(states)} programs in {gst['distinct']} model states")
    recs = observe(states, tag)
    open_k = [k for k in vlib.load_known().get("open", []) if k["property"] in ("C08", "C13", "C11")]
    dev_to_k = {k["deviation"]: k for k in sorted(open_k, key=lambda k: k["property"] == prop) if k.get("deviation")}
    judged, consumed, tstates = judge(recs, tag, set(dev_to_k))
    neg = negative_control(recs, tag)
    violations = []
    known_hits = []
    seen = set()
    for j in judged:
        if j["kind"] not in KINDS[prop]:
            continue
        if j["class"] in dev_to_k:
            k = dev_to_k[j["class"]]
            known_hits.append((k["id"], k["what"]))
            continue
        r = j["_rec"]
        s = states[r["id"]]
        seed_state = next(x for x in states if x["seed"] == s["seed"] and x["steps"] == 0)
        key = (j["kind"], s["seed"], tuple(sorted(s["rules"])))
        if key in seen:
            continue
        seen.add(key)
        payload = {"property": prop, "complaint": j["kind"], "seed_program": seed_state["_src"], "rewritten_program": s["_src"],
                   "rewrites_applied": s["rules"], "observed": {k: r[k] for k in ("vec", "h256", "h32", "outcome")},
                   "seed_observed": {k: recs[states.index(seed_state)][k] for k in ("vec", "h256", "h32")},
                   "probes": seed_state["probes"], "compile": {k: v for k, v in s["_comp"].items() if k != "code"}}
        path = vlib.write_replay(prop, f"{tier}-rw{len(violations)}", payload)
        violations.append((path, f"{j['kind']} after {s['rules']}: {s['_src'].strip().splitlines()[-2][:160]}"))
    cov = {"rewrite_model_states": gst["distinct"], "rewrite_programs": len(states), "rewrite_depth": gst["depth"],
           "rewrite_classes": len({s["seed"] for s in states}), "rewrite_trace_lines": consumed, "rewrite_binding_selftest": neg,
           "rules": sorted({x for s in states for x in s["rules"]}),
           # vacuity guard: how many programs each rule produced, and how many of them differ textually from their seed
           "programs_per_rule": {r: sum(1 for s in states if s["steps"] and s["rule"] == r) for r in sorted({s["rule"] for s in states if s["steps"]})}}
    seed_src = {s["seed"]: s["_src"] for s in states if s["steps"] == 0}
    step1 = [s for s in states if s["steps"] == 1]
    same_text = sorted(r for r in {s["rule"] for s in step1}
                       if all(s["_src"] == seed_src.get(s["seed"]) for s in step1 if s["rule"] == r))
    if same_text:
        raise ToolError(f"vacuous rewrite rules (the rendered program is identical to its seed): {same_text}")
    cov["known_findings_hit"] = sorted({k for k, _ in known_hits})
    return violations, known_hits, cov, gst, consumed, tstates, states


def run(prop, tier):
    t0 = time.time()
    vlib.build()
    tag = f"{prop}-{tier}"
    vlib.clear_replays(prop, tier)
    violations, known_hits, cov, gst, consumed, tstates, states = run_rewrite(prop, tier, tag)
    samples = [{"seed": s["_src"], "rewritten": next((x["_src"] for x in states if x["seed"] == s["seed"] and x["steps"] == 1), None)}
               for s in states if s["steps"] == 0][:3]
    cov.update({"states": gst["distinct"] + tstates, "transitions": gst["states"] + consumed,
                "traces_validated_against_impl": consumed, "samples": samples, "exhaustive": tier == "quick",
                "rule": f"all programs reachable from each of the seeds of Rewrite.tla (hand-picked + twin seeds) by <= MaxSteps rewrites (TLC breadth first); observables "
                        "= validate vector (default + strict) over the seed's probes + common pool, hash256, hash"})
    vlib.write_evidence(prop, tier, cov, time.time() - t0, len(violations),
                        ["Rewrite.tla's rules are my transcription of 'meaning-preserving'; TLC checks each preserves BeffSem membership",
                         "equality of validators is observed on the seed's type-directed probes plus the common pool"])
    vlib.finish(prop, violations, known_hits)

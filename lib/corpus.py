"""The repository's own test corpus: programs extracted from the r#"..."# literals of packages/beff-core/tests/*.rs."""
import glob
import os
import re

TEST_FN = re.compile(r"#\[test\]\s*fn\s+(\w+)\s*\(\)\s*\{", re.M)
PAIR = re.compile(r'\(\s*"([^"]+)"\s*,\s*r#"(.*?)"#\s*,?\s*\)', re.S)
RAW = re.compile(r'r#"(.*?)"#', re.S)


def programs(repo=None):
    repo = repo or os.environ.get("REPO_ROOT", "/repo")
    out = []
    for path in sorted(glob.glob(os.path.join(repo, "packages/beff-core/tests/*.rs"))):
        text = open(path).read()
        starts = [(m.start(), m.group(1)) for m in TEST_FN.finditer(text)]
        for k, (pos, name) in enumerate(starts):
            body = text[pos: starts[k + 1][0] if k + 1 < len(starts) else len(text)]
            # the input comes before the snapshot: cut at the first assert_snapshot!'s "@"
            cut = body.find(",@r")
            src = body if cut < 0 else body[:cut]
            pairs = PAIR.findall(src)
            if pairs:
                files = [(n, c) for n, c in pairs]
            else:
                raws = RAW.findall(src)
                if not raws:
                    continue
                files = [("entry.ts", raws[0])]
            if not any(n == "entry.ts" for n, _ in files):
                continue
            out.append({"name": os.path.basename(path) + "::" + name, "files": files})
    return out

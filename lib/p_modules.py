"""C09: splitting declarations across modules does not change the result.

Modules.tla is the state machine over layouts (placement of declarations in files, export styles, import styles per use
site, file kinds .ts/.d.ts/.tsx, a same-named decoy type, one broken reference).  Every layout reachable within MaxSteps is
rendered to files and compiled; Trace_Modules.tla requires non-broken layouts to have validators identical to the
single-file program (validate vectors + hash256) and broken layouts to produce a diagnostic, never code."""
import copy
import json
import os
import time

import vlib
from vlib import ToolError, log

EXT = {"ts": ".ts", "dts": ".d.ts", "tsx": ".tsx"}
# nested directories, the same base name everywhere (generated identifiers are built from the paths)
# (a/b/t.ts and a_b/t.ts differ only in a separator that generated identifiers replace by "_")
# (a directory name that starts with a digit: the path becomes part of generated identifiers)
FPATH = {"entry": "entry", "m1": "a/b/t", "m2": "a/3c/t", "m3": "3c/t", "m4": "a_b/t", "hop": "hop"}


def spec_from(frm, to):
    import posixpath
    rel = posixpath.relpath(FPATH[to], posixpath.dirname(FPATH[frm]) or ".")
    return '"' + (rel if rel.startswith(".") else "./" + rel) + '"'


def render(L):
    place, exp, kind = L["place"], L["exp"], L["kind"]
    imp = {(s["u"], s["d"]): s["st"] for s in L["imp"]}
    broken = (L["broken"]["u"], L["broken"]["d"])
    files = {"entry": [], "m1": [], "m2": [], "m3": [], "m4": []}
    bound = {f: {} for f in files}         # file -> local name -> True
    hop = []

    dname = L["dname"]                     # declared name (E2 is declared as E in a file of its own)

    def ename(d):
        return dname[d] + "X" if exp[d] == "renamed" and place[d] != "entry" else dname[d]

    def user_file(u):
        return "entry" if u == "T" else place[u]

    def ref(u, d):
        fu, fd = user_file(u), place[d]
        if fu == fd:
            return d
        st = imp[(u, d)]
        is_default = exp[d] in ("default", "defaultExpr") and fd != "entry"
        en = ename(d) + ("Missing" if broken == (u, d) else "")
        spec = spec_from(fu, fd)
        hspec = spec_from("hop", fd)
        fromhop = spec_from(fu, "hop")

        def bind(local, line):
            if local not in bound[fu]:
                bound[fu][local] = True
                files[fu].insert(0, line)

        if st == "named":
            if is_default:
                bind(d, f"import {d} from {spec};")
            elif en != d:
                bind(d, f"import {{ {en} as {d} }} from {spec};")
            else:
                bind(d, f"import {{ {d} }} from {spec};")
            return d
        if st == "renamedImport":
            local = f"{d}L{u}"
            if is_default:
                bind(local, f"import {local} from {spec};")
            else:
                bind(local, f"import {{ {en} as {local} }} from {spec};")
            return local
        if st == "typeonly":
            if is_default:
                bind(d, f"import type {d} from {spec};")
            elif en != d:
                bind(d, f"import type {{ {en} as {d} }} from {spec};")
            else:
                bind(d, f"import type {{ {d} }} from {spec};")
            return d
        if st == "namespace":
            ns = f"NS{fd}"
            bind(ns, f"import * as {ns} from {spec};")
            return f"{ns}.{en}"
        if st == "importtype":
            return f"import({spec}).{en}"
        if st == "hopnamed":
            line = f'export {{ {ename(d)} }} from {hspec};'
            if line not in hop:
                hop.append(line)
            bind(d, (f'import {{ {en} as {d} }} from {fromhop};' if en != d else f'import {{ {d} }} from {fromhop};'))
            return d
        if st == "hopstar":
            line = f'export * from {hspec};'
            if line not in hop:
                hop.append(line)
            bind(d, (f'import {{ {en} as {d} }} from {fromhop};' if en != d else f'import {{ {d} }} from {fromhop};'))
            return d
        if st == "hopns":
            ns = f"ns{fd}"
            line = f'export * as {ns} from {hspec};'
            if line not in hop:
                hop.append(line)
            bind(ns, f'import {{ {ns} }} from {fromhop};')
            return f"{ns}.{en}"
        raise ToolError(f"unknown import style {st}")

    def decl(d):
        f = place[d]
        if d == "B":
            body, head = '"x" | "y"', "type B"
        elif d == "A":
            body, head = f'{{ a: string; b?: {ref("A", "B")}; self?: A }}', "type A"
        elif d == "G":
            body, head = "{ x: X }", "type G<X>"
        elif d in ("E", "E2", "E3"):
            members = {"E": '{ P = "p", Q = "q" }', "E2": '{ P = "fp", R = "r" }', "E3": '{ P = "gp", S = "s" }'}[d]
            st = exp[d] if f != "entry" else "inline"
            n = dname[d]
            if st == "inline":
                return f"export enum {n} {members}"
            core = ("declare " if kind[f] == "dts" else "") + f"enum {n} {members}"
            tail = {"list": f"export {{ {n} }};", "renamed": f"export {{ {n} as {n}X }};", "default": f"export default {n};"}[st]
            return core + "\n" + tail
        else:
            body, head = None, None
        st = exp[d] if f != "entry" else "inline"
        if d == "k":
            if kind[f] == "dts":
                core = "declare const k: { readonly v: 1 };"
            else:
                core = "const k = { v: 1 } as const;"
            if st == "inline":
                return "export " + core
            if st == "defaultExpr" and kind[f] != "dts":
                # an expression that mentions another declaration of its own module; the importing file has a decoy of that name
                return "const kin = 1 as const;\nexport default { v: kin } as const;"
            tail = {"list": "export { k };", "renamed": "export { k as kX };", "default": "export default k;", "defaultExpr": "export default k;"}[st]
            return core + "\n" + tail
        if st == "inline":
            return f"export {head} = {body};"
        tail = {"list": f"export {{ {d} }};", "renamed": f"export {{ {d} as {d}X }};", "default": f"export default {d};"}[st]
        return f"{head} = {body};\n{tail}"

    for d in ["B", "A", "G", "k", "E", "E2", "E3"]:
        files[place[d]].append(decl(d))
    root = f'type T = {{ a: {ref("T", "A")}; b: {ref("T", "B")}; k: typeof {ref("T", "k")}; g: {ref("T", "G")}<{ref("T", "B")}>; e: {ref("T", "E")}.P; f: {ref("T", "E2")}.P; g3: {ref("T", "E3")}.P; ev: typeof {ref("T", "E")}.Q; ee?: {ref("T", "E")}; eo?: {ref("T", "E")}[]; ff?: {ref("T", "E2")}; fo?: {ref("T", "E2")}[] }};'
    files["entry"].append(root)
    files["entry"].append("parse.buildParsers<{ T: T }>();")
    if exp["k"] == "defaultExpr" and place["k"] != "entry":
        files["entry"].insert(0, 'const kin = "decoy";')
    if L["decoy"] != "none":
        files[L["decoy"]].append("export type B = number;\nexport type UsesDecoyB = B[];")
        # a hop file also re-exports everything of the decoy's file: an explicit `export { B } from` wins over that star
        star = f'export * from {spec_from("hop", L["decoy"])};'
        if hop and L["decoy"] != "entry" and star not in hop:
            hop.append(star)
    out = []
    for f, lines in files.items():
        if f == "entry":
            out.append(("entry.ts", "\n".join(lines) + "\n"))
        elif lines:
            out.append((FPATH[f] + EXT[kind[f]], "\n".join(lines) + "\n"))
    if hop:
        out.append(("hop.ts", "\n".join(hop) + "\n"))
    return out


def broken_name(L):
    d = L["broken"]["d"]
    n = L["dname"][d]
    return (n + "X" if L["exp"][d] == "renamed" and L["place"][d] != "entry" else n) + "Missing"


def layouts_to_depth(d, depth):
    """all layouts of Modules.tla within `depth` changes of the single-file program (TLC, breadth first)"""
    cfg = os.path.join(d, "MC_Modules.cfg")
    vlib.write_cfg(cfg, spec="Spec", constants={"MaxSteps": depth}, invariants=["AllResolve", "EmitInv"])
    gr = vlib.run_tlc(cfg, os.path.join(vlib.VERIF, "spec/mc/MC_Modules.tla"), workers=12, heap="8g", tag="modules", timeout=3000)
    if gr["violated"] or not gr["ok"]:
        raise ToolError("Modules.tla failed:\n" + gr["tail"])
    return vlib.tagged_lines(gr["lines"], "LAYOUT"), gr


def layout_probes():
    """values for the root type T of the Modules.tla program: the common pool, members and near members"""
    common = __import__("p_hash").pool()
    probes = common + [
        {"k": "obj", "c": "plain", "ps": [{"key": "a", "v": {"k": "obj", "c": "plain", "ps": [{"key": "a", "v": {"k": "str", "s": "s"}}]}},
                                          {"key": "b", "v": {"k": "str", "s": "x"}}, {"key": "k", "v": {"k": "obj", "c": "plain", "ps": [{"key": "v", "v": {"k": "num", "n": "1"}}]}},
                                          {"key": "g", "v": {"k": "obj", "c": "plain", "ps": [{"key": "x", "v": {"k": "str", "s": "y"}}]}}]},
        {"k": "obj", "c": "plain", "ps": [{"key": "a", "v": {"k": "obj", "c": "plain", "ps": [{"key": "a", "v": {"k": "str", "s": "s"}}, {"key": "b", "v": {"k": "num", "n": "1"}}]}},
                                          {"key": "b", "v": {"k": "str", "s": "x"}}, {"key": "k", "v": {"k": "obj", "c": "plain", "ps": [{"key": "v", "v": {"k": "num", "n": "1"}}]}},
                                          {"key": "g", "v": {"k": "obj", "c": "plain", "ps": [{"key": "x", "v": {"k": "str", "s": "y"}}]}}]},
        {"k": "obj", "c": "plain", "ps": [{"key": "a", "v": {"k": "obj", "c": "plain", "ps": [{"key": "a", "v": {"k": "str", "s": "s"}}]}},
                                          {"key": "b", "v": {"k": "num", "n": "1"}}, {"key": "k", "v": {"k": "obj", "c": "plain", "ps": [{"key": "v", "v": {"k": "num", "n": "1"}}]}},
                                          {"key": "g", "v": {"k": "obj", "c": "plain", "ps": [{"key": "x", "v": {"k": "num", "n": "1"}}]}}]},
        {"k": "obj", "c": "plain", "ps": [{"key": "a", "v": {"k": "obj", "c": "plain", "ps": [{"key": "a", "v": {"k": "str", "s": "s"}}]}},
                                          {"key": "b", "v": {"k": "str", "s": "y"}}, {"key": "k", "v": {"k": "obj", "c": "plain", "ps": [{"key": "v", "v": {"k": "num", "n": "2"}}]}},
                                          {"key": "g", "v": {"k": "obj", "c": "plain", "ps": [{"key": "x", "v": {"k": "str", "s": "x"}}]}}]},
    ]
    S = lambda x: {"k": "str", "s": x}
    for q in probes[len(common):]:
        q["ps"] += [{"key": "ev", "v": S("q")}, {"key": "e", "v": S("p")}, {"key": "f", "v": S("fp")}, {"key": "g3", "v": S("gp")}]
    swapped = copy.deepcopy(probes[len(common)])
    swapped["ps"][-3:] = [{"key": "e", "v": S("fp")}, {"key": "f", "v": S("p")}, {"key": "g3", "v": S("gp")}]
    same = copy.deepcopy(probes[len(common)])
    same["ps"][-3:] = [{"key": "e", "v": S("p")}, {"key": "f", "v": S("p")}, {"key": "g3", "v": S("p")}]
    other = copy.deepcopy(probes[len(common)])
    other["ps"][-3:] = [{"key": "e", "v": S("q")}, {"key": "f", "v": S("r")}, {"key": "g3", "v": S("s")}]
    third = copy.deepcopy(probes[len(common)])
    third["ps"][-3:] = [{"key": "e", "v": S("p")}, {"key": "f", "v": S("gp")}, {"key": "g3", "v": S("fp")}]
    probes += [swapped, same, other, third]
    # the enums as whole types (optional properties ee / eo of E, ff / fo of E2): members of each, and each other's members
    base = probes[len(common)]
    for extra in ([("ee", S("q")), ("ff", S("r"))], [("ee", S("r"))], [("ff", S("q"))],
                  [("eo", {"k": "arr", "es": [S("p"), S("q")]}), ("fo", {"k": "arr", "es": [S("fp")]})], [("fo", {"k": "arr", "es": [S("p")]})]):
        q = copy.deepcopy(base)
        q["ps"] += [{"key": k, "v": v} for k, v in extra]
        probes.append(q)
    return probes


# ------------------------------------------------------------------------------------------ chains (spec/gen/Chains.tla)
def render_chain(c):
    """Files of one Chains.tla state.  Link i (0..len) is named <prefix><i>; link i > 0 is defined in terms of link i - 1; a file
    that holds link i and not link i - 1 reaches it by the state's style: named `import { K0 } from "./m0"`, ns `import * as M0`
    + `M0.K0`, renamed `import { K0 as P0 }` + `P0`, hub `import { K0 } from "./hub"` with hub.ts re-exporting every file by
    `export *`.  Files are m<i>.ts (i = index of the first link they hold), so files of one layout have the same text shape."""
    n, kind, style = c["len"], c["kind"], c["style"]
    fof = c["files"]            # file tag of link i: "entry" or the index of the file's first link
    if kind == "nsvalue":
        return render_nsvalue(c)

    def pref(i):
        if kind in ("const", "constprop", "tupconst"):
            return "K"
        if kind == "enumconst":
            return "E" if i == 0 else "K"
        return {"alias": "A", "iface": "I", "generic": "G"}[kind]

    def name(i):
        return f"{pref(i)}{i}"

    imports = {}                # file -> list of import lines

    def ref(frm, j):
        """how file `frm` mentions link j"""
        f = fof[j]
        if f == frm:
            return name(j)
        mod = "./hub" if style == "hub" else f"./m{f}"
        if style == "ns":
            line, r = f'import * as M{f} from "./m{f}";', f"M{f}.{name(j)}"
        elif style == "renamed":
            line, r = f'import {{ {name(j)} as P{j} }} from "./m{f}";', f"P{j}"
        else:
            line, r = f'import {{ {name(j)} }} from "{mod}";', name(j)
        if line not in imports.setdefault(frm, []):
            imports[frm].append(line)
        return r

    def decl(i):
        f = fof[i]
        ex = "" if f == "entry" else "export "
        r = ref(f, i - 1) if i > 0 else None
        if kind == "const":
            return f'{ex}const K{i} = ' + ('{ tag: "k", n: 1 } as const;' if i == 0 else f"{r};")
        if kind == "constprop":
            return f'{ex}const K{i} = ' + ('{ tag: "k", n: 1 } as const;' if i == 0 else f"{{ prev: {r}, n: {i} }} as const;")
        if kind == "tupconst":
            return f'{ex}const K{i} = ' + ('"k0" as const;' if i == 0 else f"[{r}, {i}] as const;")
        if kind == "enumconst":
            if i == 0:
                return f'{ex}enum E0 {{ P = "p", Q = "q" }}'
            return f"{ex}const K{i} = " + (f"{r}.P;" if i == 1 else f"{r};")
        if kind == "alias":
            return f"{ex}type A{i} = " + ('{ tag: "k"; n: 1 };' if i == 0 else f"{r};")
        if kind == "iface":
            return f"{ex}interface I{i} " + ("{ p0: string }" if i == 0 else f"extends {r} {{ p{i}: number }}")
        if kind == "generic":
            return f"{ex}type G{i}<X> = " + ("X[];" if i == 0 else f"{{ v: {r}<X> }};")
        raise ToolError(f"unknown chain kind {kind}")

    decls = {}
    for i in range(n + 1):
        decls.setdefault(fof[i], []).append(decl(i))
    last = ref("entry", n)
    root = {"alias": last, "iface": last, "generic": f"{last}<string>"}.get(kind, f"typeof {last}")
    files = []
    body = "\n".join(imports.get("entry", []) + decls.get("entry", []) + [f"type T = {root};", "parse.buildParsers<{ T: T }>();"]) + "\n"
    files.append(("entry.ts", body))
    fs = sorted(f for f in decls if f != "entry")
    for f in fs:
        files.append((f"m{f}.ts", "\n".join(imports.get(f, []) + decls[f]) + "\n"))
    if style == "hub":
        files.append(("hub.ts", "".join(f'export * from "./m{f}";\n' for f in fs)))
    return files


def render_nsvalue(c):
    """kind nsvalue: type U0 and constants K0 = { tag: "k", n: 1 } as const, K<i> = K<i-1>.  Single file: the root spells the namespace
    object out ({ api: { K0: typeof K0, ... }, u: U0 }).  Split: the constants (and U0 with K0) live in m-files that import each
    other by name, hub.ts re-exports every name BY NAME (export { U0, K0 } from "./m0"), and entry.ts says
    import * as api from "./hub"; import { U0 } from "./hub"; type T = { api: typeof api; u: U0 }."""
    n, fof = c["len"], c["files"]
    u0 = 'type U0 = { tag: "k"; n: 1 };'
    k = lambda i: f"const K{i} = " + ('{ tag: "k", n: 1 } as const;' if i == 0 else f"K{i - 1};")
    if all(f == "entry" for f in fof):
        api = "; ".join(f"K{i}: typeof K{i}" for i in range(n + 1))
        body = "\n".join([u0] + [k(i) for i in range(n + 1)] + [f"type T = {{ api: {{ {api} }}; u: U0 }};", "parse.buildParsers<{ T: T }>();"]) + "\n"
        return [("entry.ts", body)]
    by_file = {}
    for i in range(n + 1):
        by_file.setdefault(fof[i], []).append(i)
    files = [("entry.ts", 'import * as api from "./hub";\nimport { U0 } from "./hub";\ntype T = { api: typeof api; u: U0 };\nparse.buildParsers<{ T: T }>();\n')]
    hub = []
    for f in sorted(by_file):
        links = by_file[f]
        lines = []
        first = links[0]
        if first > 0 and fof[first - 1] != f:
            lines.append(f'import {{ K{first - 1} }} from "./m{fof[first - 1]}";')
        if 0 in links:
            lines.append("export " + u0)
        lines += ["export " + k(i) for i in links]
        files.append((f"m{f}.ts", "\n".join(lines) + "\n"))
        names = (["U0"] if 0 in links else []) + [f"K{i}" for i in links]
        hub.append(f'export {{ {", ".join(names)} }} from "./m{f}";')
    files.append(("hub.ts", "\n".join(hub) + "\n"))
    return files


def chain_probes():
    S = lambda x: {"k": "str", "s": x}
    N = lambda x: {"k": "num", "n": str(x)}
    O = lambda **kw: {"k": "obj", "c": "plain", "ps": [{"key": k, "v": v} for k, v in kw.items()]}
    A = lambda *xs: {"k": "arr", "es": list(xs)}
    k0 = O(tag=S("k"), n=N(1))
    ps = [S("p"), S("q"), S("k0"), N(1), {"k": "null"}, k0, O(tag=S("k"), n=N(2)), O(tag=S("x"), n=N(1)), O(tag=S("k")),
          A(S("a")), A(N(1)), A()]
    prev, tup, gen, ifc = k0, S("k0"), A(S("a")), {"p0": S("s")}
    for i in range(1, 5):
        prev = O(prev=prev, n=N(i))
        tup = A(tup, N(i))
        gen = O(v=gen)
        ifc = dict(ifc, **{f"p{i}": N(i)})
        bad_ifc = dict(ifc, **{f"p{i}": S("no")})
        # kind nsvalue: the namespace object with every constant, and the type
        ps += [O(api=O(**{f"K{j}": k0 for j in range(i + 1)}), u=k0), O(api=O(**{f"K{j}": k0 for j in range(i + 1)}), u=O(tag=S("k"), n=N(2))),
               O(api=O(**{f"K{j}": k0 for j in range(i)}), u=k0)]
        ps += [prev, O(prev=prev["ps"][0]["v"], n=N(i + 1)), tup, A(tup["es"][0], N(i + 1)), gen, O(v=O(v=N(1))),
               O(**ifc), O(**bad_ifc), O(**{k: v for k, v in ifc.items() if k != "p0"})]
    return ps


def chain_projects(d):
    cfg = os.path.join(d, "MC_Chains.cfg")
    vlib.write_cfg(cfg, spec="CSpec", invariants=["CrossesBoundary", "EmitInv"])
    r = vlib.run_tlc(cfg, os.path.join(vlib.VERIF, "spec/mc/MC_Chains.tla"), workers=4, heap="2g", tag="chains")
    if not r["ok"]:
        raise ToolError("chain generation failed:\n" + r["tail"])
    cs = vlib.tagged_lines(r["lines"], "CHAIN")
    if len(cs) != r["distinct"]:
        raise ToolError(f"chain generation: {len(cs)} lines for {r['distinct']} states")
    for c in cs:
        c["files"] = [x if x == "entry" else int(x[1:]) for x in c["files"]]
    # group by (len, kind), the single-file layout first (it is the reference of its group)
    cs.sort(key=lambda c: (c["len"], c["kind"], c["split"] != "single", c["split"], c["style"]))
    return cs, r


def run(prop, tier):
    t0 = time.time()
    vlib.build()
    tag = f"{prop}-{tier}"
    vlib.clear_replays(prop, tier)
    d = os.path.join(vlib.WORK, tag)
    os.makedirs(d, exist_ok=True)
    depth = 3 if tier == "quick" else 4
    layouts, gr = layouts_to_depth(d, depth)
    if tier == "thorough":
        cfg2 = os.path.join(d, "MC_Modules_sim.cfg")
        vlib.write_cfg(cfg2, spec="Spec", constants={"MaxSteps": 9}, invariants=["AllResolve", "EmitInv"])
        sr = vlib.run_tlc(cfg2, os.path.join(vlib.VERIF, "spec/mc/MC_Modules.tla"), workers=1, heap="4g", tag="modules-sim",
                          extra=["-simulate", "num=1500", "-depth", "10", "-seed", str(vlib.seed())], timeout=3000)
        layouts += vlib.tagged_lines(sr["lines"], "LAYOUT")
    # dedupe layouts that render identically
    projects, seen = [], set()
    for L in layouts:
        files = render(L)
        key = json.dumps(files)
        if key in seen:
            continue
        seen.add(key)
        projects.append({"layout": L, "files": files})
    base = next(p for p in projects if p["layout"]["steps"] == 0)
    projects.remove(base)
    projects.insert(0, base)
    log(f"[C09] {len(layouts)} layouts, {len(projects)} distinct projects")
    probes = layout_probes()
    # chains of declarations over files of identical shape (Chains.tla): groups appended after the layouts, each with its own reference
    chains, cr = chain_projects(d)
    nlay = len(projects)
    for c in chains:
        projects.append({"layout": {"steps": 0 if c["split"] == "single" else 1, "expected": "same-as-single-file", "chain": c},
                         "files": render_chain(c)})
    cprobes = chain_probes()
    log(f"[C09] + {len(chains)} chain projects")
    reqs = [vlib.compile_req(i, p["files"]) for i, p in enumerate(projects)]
    comp = vlib.compile_all(reqs)
    jobs = [{"id": i, "code": r["code"], "root": "T", "probes": probes if i < nlay else cprobes, "ops": ["validate", "hash"]}
            for i, r in enumerate(comp) if r["outcome"] == "code"]
    obs = vlib.run_driver(jobs, tag)
    recs = []
    for i, (p, r) in enumerate(zip(projects, comp)):
        rec = {"id": i, "steps": p["layout"]["steps"], "expected": p["layout"]["expected"], "outcome": r["outcome"], "vec": "", "h256": "",
               "diag": json.dumps(r.get("diags", []))[:300] if r["outcome"] == "diags" else "",
               "names_broken": (broken_name(p["layout"]) if p["layout"]["expected"] == "diagnostic" else "")}
        o = obs.get(i)
        if r["outcome"] == "code" and o is not None:
            if o["load"] != "ok":
                rec["outcome"] = "load-failed"
            else:
                rec["vec"] = "".join(x["val"][0] for x in o["probes"]) + "|" + "".join(x["vals"][0] for x in o["probes"])
                rec["h256"] = o["h256"]["v"]
        recs.append(rec)
    judged, consumed, tstates = judge(recs, tag)
    bad = copy.deepcopy(recs[1])
    bad["h256"] = "0" * 64
    bad["expected"] = "same-as-single-file"
    bad["outcome"] = "code"
    jd, _, _ = judge([recs[0], bad], tag + "-neg")
    if not any(j["kind"] == "hash256-differs-from-single-file-program" for j in jd):
        raise ToolError("binding self-test failed: corrupted digest accepted by Trace_Modules")
    violations = []
    seen = set()
    for j in judged:
        r = recs[j["line"] - 1]
        p = projects[r["id"]]
        L = p["layout"]
        if "chain" in L:
            c = L["chain"]
            sig = (j["kind"], c["kind"], c["style"], c["split"])
            if sig in seen or len(violations) >= 30:
                continue
            seen.add(sig)
            grp = next(q for q in projects[nlay:] if q["layout"]["chain"]["len"] == c["len"] and q["layout"]["chain"]["kind"] == c["kind"]
                       and q["layout"]["chain"]["split"] == "single")
            payload = {"property": prop, "complaint": j["kind"], "chain": c, "files": p["files"], "single_file_program": grp["files"],
                       "compile": {k: v for k, v in comp[r["id"]].items() if k != "code"}, "observed": {k: r[k] for k in ("vec", "h256")}}
            violations.append((vlib.write_replay(prop, f"{tier}-{len(violations)}", payload),
                               f"{j['kind']}: chain len={c['len']} kind={c['kind']} split={c['split']} style={c['style']} :: "
                               f"{json.dumps(comp[r['id']].get('diags', comp[r['id']].get('msg', '')))[:200]}"))
            continue
        sig = (j["kind"], json.dumps(comp[r["id"]].get("diags", ""))[:80], tuple(sorted((s["st"]) for s in L["imp"])), tuple(sorted(L["exp"].values())))
        if sig in seen or len(violations) >= 20:
            continue
        seen.add(sig)
        payload = {"property": prop, "complaint": j["kind"], "layout": L, "files": p["files"], "single_file_program": base["files"],
                   "compile": {k: v for k, v in comp[r["id"]].items() if k != "code"}, "observed": {k: r[k] for k in ("vec", "h256")},
                   "single_file_observed": {k: recs[0][k] for k in ("vec", "h256")}}
        violations.append((vlib.write_replay(prop, f"{tier}-{len(violations)}", payload),
                           f"{j['kind']}: place={L['place']} exp={L['exp']} imp={[(s['u'], s['d'], s['st']) for s in L['imp']]} kind={L['kind']} "
                           f"decoy={L['decoy']} broken={L['broken']} :: {json.dumps(comp[r['id']].get('diags', comp[r['id']].get('msg', '')))[:200]}"))
    oc = {}
    for r in recs:
        oc[r["outcome"]] = oc.get(r["outcome"], 0) + 1
    cov = {"states": gr["distinct"] + cr["distinct"] + tstates, "transitions": gr["states"] + cr["states"] + consumed, "traces_validated_against_impl": consumed,
           "samples": [{"files": projects[len(projects) // 2]["files"], "expected": projects[len(projects) // 2]["layout"]["expected"]}],
           "layouts": len(layouts), "distinct_projects": nlay, "chain_projects": len(chains), "max_steps": depth, "outcomes": oc,
           "broken_layouts": sum(1 for p in projects if p["layout"]["expected"] == "diagnostic"),
           "binding_selftest": "rejected: hash256-differs-from-single-file-program", "exhaustive": True,
           "rule": f"every layout reachable from the single-file program within {depth} changes (move a declaration, change an export style, change an "
                   "import style of a use site, change a file kind, add a same-named decoy, break one reference)"}
    vlib.write_evidence(prop, tier, cov, time.time() - t0, len(violations),
                        ["the rendering rules of lib/p_modules.py produce TypeScript in which every non-broken use site resolves to the original declaration "
                         "(TypeScript itself is not available to confirm); Modules.tla!WellFormed excludes combinations TypeScript rejects",
                         "module specifiers are resolved by the harness resolver (./x -> x.ts, x.tsx, x.d.ts)"])
    vlib.finish(prop, violations, [])


def judge(recs, tag):
    d = os.path.join(vlib.WORK, tag)
    os.makedirs(d, exist_ok=True)
    p = os.path.join(d, "mtrace.ndjson")
    with open(p, "w") as f:
        for r in recs:
            f.write(json.dumps(r) + "\n")
    tr = vlib.validate_trace(p, os.path.join(vlib.VERIF, "spec/trace/Trace_Modules.tla"),
                             os.path.join(vlib.VERIF, "spec/trace/Trace_Simple.cfg"), heap="4g", tag=tag, timeout=3000)
    cons = vlib.tagged_lines(tr["lines"], "CONSUMED")
    if not cons or cons[0]["n"] != len(recs):
        raise ToolError(f"modules trace not consumed: {cons}\n{tr['tail']}")
    return vlib.tagged_lines(tr["lines"], "JUDGED"), cons[0]["n"], tr["distinct"]

"""C02: emitted JSON Schema and validator agree on JSON documents (flat and contextual printing)."""
import copy
import json
import os
import subprocess
import time

import vlib
import p_val
from vlib import ToolError, log

FAMILIES_QUICK = [("prim", 1), ("object", 1), ("tuple", 1), ("union", 1), ("tpl", 1), ("format", 1), ("disc", 1), ("nonjson", 1), ("util", 1), ("twin", 0)]
FAMILIES_THOROUGH = [("prim", 2), ("object", 2), ("tuple", 2), ("union", 2), ("tpl", 2), ("format", 2), ("disc", 2), ("nonjson", 2), ("util", 2), ("twin", 1)]

CTXCFGS = [
    {"name": "defs", "refPathTemplate": "#/$defs/{name}", "definitionContainerKey": "$defs"},
    {"name": "openapi", "refPathTemplate": "#/components/schemas/{name}", "definitionContainerKey": None},
    {"name": "definitions", "refPathTemplate": "#/definitions/{name}", "definitionContainerKey": "definitions"},
]


def is_json(v):
    k = v["k"]
    if k in ("null", "bool", "str"):
        return True
    if k == "num":
        return v["n"] not in ("NaN", "Infinity", "-Infinity")
    if k == "arr":
        return all(is_json(e) for e in v["es"])
    if k == "obj":
        return v["c"] == "plain" and all(is_json(p["v"]) for p in v["ps"])
    return False


def to_py(v):
    k = v["k"]
    if k == "null":
        return None
    if k == "bool":
        return v["b"]
    if k == "str":
        return v["s"]
    if k == "num":
        f = float(v["n"])
        return int(f) if f.is_integer() and "e" not in v["n"] else f
    if k == "arr":
        return [to_py(e) for e in v["es"]]
    if k == "obj":
        return {p["key"]: to_py(p["v"]) for p in v["ps"]}
    raise ToolError("not json")


def strings_of(v, acc):
    k = v["k"]
    if k == "str":
        acc.add(v["s"])
    elif k == "arr":
        for e in v["es"]:
            strings_of(e, acc)
    elif k == "obj":
        for p in v["ps"]:
            acc.add(p["key"])
            strings_of(p["v"], acc)


def patterns_of(j, acc):
    if isinstance(j, dict):
        for k, x in j.items():
            if k == "pattern" and isinstance(x, str):
                acc.add(x)
            patterns_of(x, acc)
    elif isinstance(j, list):
        for x in j:
            patterns_of(x, acc)


def embed(schema, defs, template):
    """root document in which the template's JSON pointers resolve"""
    if not isinstance(schema, dict):
        return None
    pre = template.split("{name}")[0]
    if not pre.startswith("#/"):
        return None
    segs = [s for s in pre[2:].split("/") if s != ""]
    if '"format"' in json.dumps(schema) or '"format"' in json.dumps(defs):
        return None          # formats are asserted by the spec (registered formats), not by python jsonschema
    root = copy.deepcopy(schema)
    cur = root
    for i, s in enumerate(segs):
        if i == len(segs) - 1:
            cur[s] = defs
        else:
            cur = cur.setdefault(s, {})
    if not segs:
        root.update(defs)
    return root


def run(prop, tier):
    t0 = time.time()
    vlib.build()
    fams = FAMILIES_QUICK if tier == "quick" else FAMILIES_THOROUGH
    tag = f"{prop}-{tier}"
    vlib.clear_replays(prop, tier)
    cases, gstats = p_val.generate(fams, tag)
    nb = p_val.builders(cases)          # the same types built with the client's builder API (b.*)
    cases += nb
    # JSON documents only
    for c in cases:
        c["probes"] = [p for p in c["probes"] if is_json(p["v"])]
    reqs = []
    for i, c in enumerate(cases):
        c["_src"] = c.get("_src") or vlib.render_program(c["env"], c["ty"])
        reqs.append(vlib.build_req(i, c["_bexpr"]) if c.get("via") == "b" else vlib.compile_req(i, [("entry.ts", c["_src"])]))
    comp = vlib.compile_all(reqs)
    jobs = []
    for i, (c, r) in enumerate(zip(cases, comp)):
        c["_comp"] = r
        if r["outcome"] == "code":
            jobs.append({"id": i, "code": r["code"], "build": r.get("build"), "root": "T", "probes": [p["v"] for p in c["probes"]],
                         "ops": ["validate", "schema"],
                         "ctxcfgs": [{k: v for k, v in cfg.items() if k != "name"} for cfg in CTXCFGS]})
    obs = vlib.run_driver(jobs, tag)
    # calibration + pattern tables through python jsonschema / re
    cal_in = []
    for i, c in enumerate(cases):
        o = obs.get(i)
        if o is None or o["load"] != "ok":
            continue
        docs = [to_py(p["v"]) for p in c["probes"]]
        roots = [o["flat"]["json"] if o["flat"]["ok"] and isinstance(o["flat"]["json"], dict)
                 and '"format"' not in json.dumps(o["flat"]["json"]) else None]
        pats, strs = set(), set()
        if o["flat"]["ok"]:
            patterns_of(o["flat"]["json"], pats)
        for cfg, cx in zip(CTXCFGS, o["ctx"]):
            if cx["schema"]["ok"]:
                roots.append(embed(cx["schema"]["json"], cx["defsjson"], cfg["refPathTemplate"]))
                patterns_of(cx["schema"]["json"], pats)
                patterns_of(cx["defsjson"], pats)
            else:
                roots.append(None)
        for p in c["probes"]:
            strings_of(p["v"], strs)
        cal_in.append({"id": i, "roots": roots, "docs": docs, "pats": sorted(pats), "strs": sorted(strs)})
    r = subprocess.run(["python3-vt", os.path.join(vlib.VERIF, "lib", "jsv.py")],
                       input="\n".join(json.dumps(x) for x in cal_in) + "\n", stdout=subprocess.PIPE,
                       stderr=subprocess.PIPE, text=True)
    if r.returncode != 0:
        raise ToolError("jsonschema calibration helper failed: " + r.stderr[-2000:])
    cal = {j["id"]: j for j in (json.loads(l) for l in r.stdout.splitlines() if l.strip())}

    recs = []
    for i, c in enumerate(cases):
        cr = c["_comp"]
        rec = {"ev": "prog", "id": i, "ty": c.get("nty", c["ty"]), "env": c.get("nenv", c["env"]), "outcome": cr["outcome"], "load": "none",
               "docs": [], "flat": {"ok": False, "s": {"k": "undef"}, "msg": ""}, "ctx": [], "pats": [], "jsvflat": []}
        o = obs.get(i)
        if cr["outcome"] == "code" and o is not None:
            rec["load"] = o["load"]
            if o["load"] == "ok":
                k = cal[i]
                rec["docs"] = [{"v": p["v"], "val": p["val"]} for p in o["probes"]]
                rec["flat"] = {x: o["flat"][x] for x in ("ok", "s", "msg")}
                rec["jsvflat"] = k["jsv"][0]
                rec["pats"] = k["pats"]
                for n, (cfg, cx) in enumerate(zip(CTXCFGS, o["ctx"])):
                    pre, suf = cfg["refPathTemplate"].split("{name}")
                    rec["ctx"].append({"name": cfg["name"], "pre": pre, "suf": suf,
                                       "schema": {x: cx["schema"][x] for x in ("ok", "s", "msg")},
                                       "defs": cx["defs"], "inprog": cx["inprog"], "jsv": k["jsv"][n + 1]})
                c["_obs"] = o
        recs.append(rec)

    open_k = vlib.open_findings("C02")
    shared_devs = {k["deviation"] for k in vlib.open_findings("C01") if k.get("deviation") in ("fractionalLiteralTruncated", "tplNumberPlainDecimalOnly")}
    open_devs = {k["deviation"] for k in open_k if k.get("deviation")} | shared_devs
    judged, consumed, tstates = judge(recs, tag, open_devs)
    neg = negative_control(recs, tag, open_devs)
    dev_to_k = {k["deviation"]: k for k in open_k if k.get("deviation")}
    violations, known_hits = [], []
    seen = set()
    for j in judged:
        rec = j["_rec"]
        case = cases[rec["id"]]
        if j["kind"] == "calibration-mismatch":
            raise ToolError(f"JsonSchema.tla disagrees with python jsonschema on program {case['_src']!r} "
                            f"doc {rec['docs'][j['doc'] - 1]['v']} ({j['where']})")
        if j["class"] in dev_to_k:
            known_hits.append((dev_to_k[j["class"]]["id"], dev_to_k[j["class"]]["what"]))
            continue
        key = (rec["id"], j["kind"], j["doc"])
        if key in seen:
            continue
        seen.add(key)
        o = case.get("_obs", {})
        payload = {"property": prop, "program": case["_src"], "type_term": rec["ty"], "env": rec["env"],
                   "complaint": j["kind"], "printing": j["where"],
                   "document": rec["docs"][j["doc"] - 1] if j["doc"] > 0 else None,
                   "flat_schema": o.get("flat", {}).get("json"),
                   "contextual": [{"cfg": cx["cfg"], "schema": cx["schema"]["json"], "defs": cx["defsjson"]} for cx in o.get("ctx", [])],
                   "how_to_rerun": f"bin/check {prop} --replay <this file>"}
        path = vlib.write_replay(prop, f"{tier}-{len(violations)}", payload)
        violations.append((path, f"{j['kind']} ({j['where']}): {case['_src'].strip().splitlines()[-2]} "
                                 f"doc={json.dumps(rec['docs'][j['doc'] - 1]['v'])[:160] if j['doc'] > 0 else '-'}"))
    ndocs = sum(len(r["docs"]) * (1 + len(r["ctx"])) for r in recs)
    printed = sum(1 for r in recs if r["flat"]["ok"])
    threw = sum(1 for r in recs if r["load"] == "ok" and not r["flat"]["ok"])
    samples = []
    for r in recs[:: max(1, len(recs) // 3)][:3]:
        if r["load"] == "ok":
            o = cases[r["id"]]["_obs"]
            samples.append({"program": cases[r["id"]]["_src"], "flat_schema": o["flat"]["json"],
                            "document": to_py(r["docs"][0]["v"]) if r["docs"] else None,
                            "validator_says": r["docs"][0]["val"] if r["docs"] else None})
    cov = {"states": gstats["distinct"] + tstates, "transitions": gstats["states"] + consumed,
           "traces_validated_against_impl": consumed, "samples": samples, "programs": len(cases),
           "families": gstats["families"], "schema_document_pairs_judged": ndocs, "programs_printed_flat": printed,
           "programs_where_printing_threw": threw, "printing_configurations": [c["name"] for c in CTXCFGS] + ["flat"],
           "known_findings_hit": sorted({k for k, _ in known_hits}), "binding_selftest": neg, "exhaustive": False, "exhaustively_enumerated_depth": max(dp for _, dp in fams),
           "calibration": "every (schema, document) verdict of JsonSchema.tla equals python jsonschema Draft 2020-12 (a mismatch is a tool error)",
           "rule": "every program of each TypeGen family x JSON probe documents x {flat, 3 contextual configurations}"}
    vlib.write_evidence(prop, tier, cov, time.time() - t0, len(violations),
                        ["JsonSchema.tla covers the keyword subset beff emits; calibrated against python jsonschema on every pair",
                         "pattern keywords are evaluated by python re (search semantics) and passed to TLC as a table",
                         "format is an annotation (not asserted), as in Draft 2020-12 default"])
    vlib.finish(prop, violations, known_hits)


def judge(recs, tag, open_devs, shards=12):
    d = os.path.join(vlib.WORK, tag)
    os.makedirs(d, exist_ok=True)
    openf = os.path.join(d, "open.ndjson")
    with open(openf, "w") as f:
        f.write(json.dumps({"devs": sorted(open_devs)}) + "\n")
    shards = max(1, min(shards, len(recs) // 20 + 1))
    import concurrent.futures as cf
    parts = [recs[s::shards] for s in range(shards)]
    paths = []
    for s, part in enumerate(parts):
        p = os.path.join(d, f"strace{s}.ndjson")
        with open(p, "w") as f:
            for r in part:
                f.write(json.dumps(r) + "\n")
        paths.append(p)

    def one(s):
        return vlib.validate_trace(paths[s], os.path.join(vlib.VERIF, "spec/trace/Trace_Schema.tla"),
                                   os.path.join(vlib.VERIF, "spec/trace/Trace_Schema.cfg"),
                                   env_extra={"OPEN": openf}, heap="3g", tag=f"{tag}-{s}")

    judged, consumed, states = [], 0, 0
    with cf.ThreadPoolExecutor(max_workers=shards) as ex:
        for s, r in enumerate(ex.map(one, range(shards))):
            cons = vlib.tagged_lines(r["lines"], "CONSUMED")
            if not cons or cons[0]["n"] != cons[0]["of"] or cons[0]["of"] != len(parts[s]):
                raise ToolError(f"trace shard {s} not fully consumed: {cons}\n{r['tail']}")
            consumed += cons[0]["n"]
            states += r["distinct"]
            for j in vlib.tagged_lines(r["lines"], "JUDGED"):
                j["_rec"] = parts[s][j["line"] - 1]
                judged.append(j)
    return judged, consumed, states


def negative_control(recs, tag, open_devs):
    """Drop 'required' from a logged object schema whose validator rejects {}: Trace_Schema must flag it."""
    for r in recs:
        if r["load"] != "ok" or not r["flat"]["ok"]:
            continue
        s = r["flat"]["s"]
        if s["k"] == "obj" and any(p["key"] == "required" for p in s["ps"]):
            bad = copy.deepcopy(r)
            bad["flat"]["s"]["ps"] = [p for p in bad["flat"]["s"]["ps"] if p["key"] != "required"]
            bad["jsvflat"] = ["N"] * len(bad["jsvflat"])
            bad["ctx"] = []
            jd, _, _ = judge([bad], tag + "-neg", open_devs, shards=1)
            if any(x["kind"] == "schema-valid-but-validator-rejects" for x in jd):
                return f"rejected@program{r['id']} (required removed from the logged schema)"
    raise ToolError("binding self-test failed: a schema without 'required' was accepted by Trace_Schema")

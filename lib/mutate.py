"""Text-level mutation operators for C04 (applied to corpus programs according to a TLC-enumerated schedule)."""
import re

ALIAS = re.compile(r"(export\s+)?type\s+([A-Za-z_]\w*)\s*(<[^=]*>)?\s*=\s*", re.M)


def _alias_spans(text):
    """(start, end_of_header, end_of_rhs, name) for `type X = rhs;` statements, rhs ends at the matching ';' or newline at depth 0"""
    out = []
    for m in ALIAS.finditer(text):
        i = m.end()
        depth = 0
        while i < len(text):
            ch = text[i]
            if ch in "({[<":
                depth += 1
            elif ch in ")}]>":
                depth = max(0, depth - 1)
            elif ch == ";" and depth == 0:
                break
            elif ch == "\n" and depth == 0 and text[i + 1:i + 2].strip() not in ("|", "&") and text[:i].rstrip()[-1:] not in ("|", "&", "="):
                break
            i += 1
        out.append((m.start(), m.end(), i, m.group(2)))
    return out


def apply(op, pos, text):
    """returns mutated text or None when the operator does not apply at this position"""
    spans = _alias_spans(text)
    if op == "TruncateAt":
        cut = len(text) * pos // 7
        return text[:cut]
    # layout-only mutations: the program means the same, but character columns, display columns and byte offsets differ
    if op == "IndentTabs":
        return "".join("\t" * pos + ln for ln in text.splitlines(True))
    if op == "WidePrefix":
        return "".join("/* " + "\u6f22\u5b57" * pos + " */ " + ln if ln.strip() else ln for ln in text.splitlines(True))
    if op == "RenameRef":
        ids = [m for m in re.finditer(r"(?<![\w\"'.])([A-Z]\w*)(?![\w\"'])", text)]
        if len(ids) < pos:
            return None
        m = ids[pos - 1]
        return text[:m.start()] + m.group(1) + "Zz" + text[m.end():]
    if op in ("SwapTypeArgs", "DropTypeArg"):
        ms = [m for m in re.finditer(r"<([^<>,]+),\s*([^<>]+)>", text)]
        if len(ms) < pos:
            return None
        m = ms[pos - 1]
        rep = f"<{m.group(2)}, {m.group(1)}>" if op == "SwapTypeArgs" else f"<{m.group(1)}>"
        return text[:m.start()] + rep + text[m.end():]
    if len(spans) < pos:
        return None
    s, h, e, name = spans[pos - 1]
    rhs = text[h:e]
    head = text[s:h]
    if op == "DeleteDecl":
        return text[:s] + text[e + 1:]
    if op == "DuplicateDecl":
        return text[:e + 1] + "\n" + text[s:e + 1] + text[e + 1:]
    if op == "MakeCyclicAlias":
        return text[:s] + f"{head}{name}Cyc;\ntype {name}Cyc = {name};" + text[e + 1:]
    if op == "AliasChain":
        return text[:s] + f"{head}{name}C1;\ntype {name}C1 = {name}C2;\ntype {name}C2 = {rhs};" + text[e + 1:]
    wrap = {"WrapPartial": "Partial<{}>", "WrapKeyof": "keyof ({})", "WrapRecordKey": "Record<{}, number>",
            "WrapExclude": "Exclude<{}, string>", "WrapIndexed": "({})[\"a\"]", "ReplaceByNever": "never"}
    if op in wrap:
        return text[:h] + wrap[op].replace("{}", rhs) + text[e:]
    return None

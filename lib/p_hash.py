"""C13: hash256 is a structural fingerprint computed as real SHA-256.

(1) writer: Sha256Writer.tla behaviours (all sequences of <= MaxWrites writes over block-boundary sizes, then Digest)
    replayed on the real Hash256Writer; Trace_Writer.tla validates bufferLength / bytesHashed / chunk count after every
    step and the digest against node:crypto (environment oracle).
(2) separation: all TypeGen programs observed on the common pool; Trace_Sep.tla: equal digest => equal validate vector.
(3) invariance: Rewrite.tla classes (shared with C08): equal hash256 within a class, equal hash() under the rewrites
    C13 names."""
import copy
import json
import os
import time

import vlib
import p_val
import p_rewrite
import p_runtime
from vlib import ToolError, log

SIZES = "{0,1,2,54,55,56,57,63,64,65,119,120,127,128,129,200}"
TOKCHARS = "{0,1,16,17,21,22,32,33,51,59,60,64,65}"
TOKWIDTHS = "{1,2,3,4}"


def writer_part(tier, tag):
    d = os.path.join(vlib.WORK, tag)
    os.makedirs(d, exist_ok=True)
    maxw = 3 if tier == "quick" else 4
    cfg = os.path.join(d, "MC_Writer.cfg")
    consts = {"Sizes": SIZES, "MaxWrites": maxw, "TokChars": TOKCHARS, "TokWidths": TOKWIDTHS}
    vlib.write_cfg(cfg, spec="WSpec", constants=consts, invariants=["WriterOK", "DeadAfterDigest", "EmitInv"])
    r = vlib.run_tlc(cfg, os.path.join(vlib.VERIF, "spec/mc/MC_Writer.tla"), workers=8, heap="6g", tag="writer")
    if r["violated"] or not r["ok"]:
        raise ToolError("Sha256Writer.tla invariant failed:\n" + r["tail"])
    behs = vlib.tagged_lines(r["lines"], "BEH")
    # the token layer: every sequence of <= 2 string / tag tokens over the explored lengths and widths
    cfgk = os.path.join(d, "MC_Writer_tokens.cfg")
    vlib.write_cfg(cfgk, spec="TSpec", constants=dict(consts, MaxWrites=2), invariants=["WriterOK", "DeadAfterDigest", "EmitInv"])
    rk = vlib.run_tlc(cfgk, os.path.join(vlib.VERIF, "spec/mc/MC_Writer.tla"), workers=8, heap="6g", tag="writer-tokens")
    if rk["violated"] or not rk["ok"]:
        raise ToolError("Sha256Writer.tla (token layer) invariant failed:\n" + rk["tail"])
    tb = vlib.tagged_lines(rk["lines"], "BEH")
    behs += tb
    r["distinct"] += rk["distinct"]
    r["states"] += rk["states"]
    log(f"[writer] {len(behs)} behaviours ({len(tb)} of the token layer) from {r['distinct']} model states")
    jobs = [{"kind": "writer", "id": k, "behaviours": behs[k::12]} for k in range(12)]
    obs = vlib.run_driver(jobs, tag + "-w", shards=12)
    import concurrent.futures as cf
    paths = []
    for k in range(12):
        p = os.path.join(d, f"wtrace{k}.ndjson")
        with open(p, "w") as f:
            for e in obs[k]["events"]:
                f.write(json.dumps(e) + "\n")
        paths.append((p, obs[k]["events"], behs[k::12]))
    cfgt = os.path.join(d, "Trace_Writer.cfg")
    vlib.write_cfg(cfgt, spec="TraceSpec", constants={"Sizes": SIZES, "MaxWrites": 100, "TokChars": TOKCHARS, "TokWidths": TOKWIDTHS},
                   invariants=["Report"], postcondition="Accepted")

    def one(k):
        return vlib.validate_trace(paths[k][0], os.path.join(vlib.VERIF, "spec/trace/Trace_Writer.tla"), cfgt, heap="2g", tag=f"{tag}-w{k}")

    violations, consumed, tstates = [], 0, 0
    with cf.ThreadPoolExecutor(max_workers=12) as ex:
        for k, tr in enumerate(ex.map(one, range(12))):
            cons = vlib.tagged_lines(tr["lines"], "CONSUMED")
            n = len(paths[k][1])
            jd = vlib.tagged_lines(tr["lines"], "JUDGED")
            if not cons or cons[0]["n"] != n:
                # a logged step is not a step of Sha256Writer (e.g. a write of a size the model forbids) -> violation with the prefix
                upto = cons[0]["n"] if cons else 0
                payload = {"property": "C13", "complaint": "writer-trace-rejected", "events_prefix": paths[k][1][max(0, upto - 6):upto + 2]}
                violations.append((vlib.write_replay("C13", f"{tier}-w{len(violations)}", payload), "writer trace rejected by Sha256Writer.tla"))
                continue
            consumed += n
            tstates += tr["distinct"]
            for j in jd[:5]:
                ev = paths[k][1]
                i = j["line"] - 1
                start = max(x for x in range(i + 1) if ev[x]["ev"] == "new")
                payload = {"property": "C13", "complaint": j["kind"],
                           "writes": [e["n"] if e["ev"] == "upd" else [e["k"], e["c"], e["w"]] for e in ev[start:i + 1] if e["ev"] in ("upd", "tok")],
                           "events": ev[start:i + 1]}
                violations.append((vlib.write_replay("C13", f"{tier}-w{len(violations)}", payload),
                                   f"writer: {j['kind']} after writes {payload['writes']}"))
    # negative control: corrupt bufLen of one step
    bad = copy.deepcopy(paths[0][1][:6])
    for e in bad:
        if e["ev"] == "upd":
            e["buf"] = (e["buf"] + 1) % 64
            break
    pneg = os.path.join(d, "wneg.ndjson")
    with open(pneg, "w") as f:
        for e in bad:
            f.write(json.dumps(e) + "\n")
    tr = vlib.validate_trace(pneg, os.path.join(vlib.VERIF, "spec/trace/Trace_Writer.tla"), cfgt, heap="2g", tag=f"{tag}-wneg")
    if not any(j["kind"] == "bufferLength" for j in vlib.tagged_lines(tr["lines"], "JUDGED")):
        raise ToolError("binding self-test failed: corrupted bufferLength accepted by Trace_Writer")
    cov = {"writer_model_states": r["distinct"], "writer_behaviours_replayed": len(behs), "writer_steps_validated": consumed,
           "writer_sizes": SIZES, "writer_max_writes": maxw, "writer_binding_selftest": "rejected: bufferLength off by one"}
    return violations, cov, r["distinct"] + tstates, r["states"] + consumed, len(behs)


def pool():
    d = os.path.join(vlib.WORK, "pool")
    os.makedirs(d, exist_ok=True)
    cfg = os.path.join(d, "pool.cfg")
    with open(cfg, "w") as f:
        f.write("")
    r = vlib.run_tlc(cfg, os.path.join(vlib.VERIF, "spec/mc/MC_Pool.tla"), workers=1, heap="1g", tag="pool")
    p = vlib.tagged_lines(r["lines"], "POOL")
    if not p:
        raise ToolError("could not obtain the common pool from TLC:\n" + r["tail"])
    return p[0]


def separation_part(tier, tag):
    fams = p_val.FAMILIES_QUICK if tier == "quick" else p_val.FAMILIES_THOROUGH
    cases, gstats = p_val.generate(fams, tag + "-sep")
    cases += p_val.builders(cases)      # the same types built with the client's builder API (b.*)
    common = pool()
    for c in cases:
        c["probes"] = [{"v": v} for v in common]
    reqs = []
    for i, c in enumerate(cases):
        c["_src"] = c.get("_src") or vlib.render_program(c["env"], c["ty"])
        reqs.append(vlib.build_req(i, c["_bexpr"]) if c.get("via") == "b" else vlib.compile_req(i, [("entry.ts", c["_src"])]))
    comp = vlib.compile_all(reqs)
    jobs = [{"id": i, "code": r["code"], "build": r.get("build"), "root": "T", "probes": common, "ops": ["validate", "hash", "tree"]}
            for i, r in enumerate(comp) if r["outcome"] == "code"]
    obs = vlib.run_driver(jobs, tag + "-sep")
    # level (A): the same parsers against the runtime model (validator trees, hash256 token streams, validate outcomes)
    rcov, drift, rconsumed = p_runtime.stage(cases, obs, tag + "-rtm")
    rcov.update(p_runtime.design(tag))
    for k, dr in enumerate(drift[:20]):
        vlib.write_replay("C13", f"{tier}-drift{k}", dict(dr, property="C13", complaint="model-drift (not a violation by itself)"))
        log(f"MODEL-DRIFT {dr['what']} probe={dr['probe']} observed={dr['observed']} model={dr['model']} :: {dr['program'].strip().splitlines()[-2][:120] if dr['program'].strip() else ''}")
    recs = []
    for i, c in enumerate(cases):
        o = obs.get(i)
        if o is None or o["load"] != "ok":
            continue
        recs.append({"id": i, "h256": o["h256"]["v"] if o["h256"]["ok"] else "threw:" + o["h256"]["msg"],
                     "vec": "".join(p["val"][0] for p in o["probes"]) + "|" + "".join(p["vals"][0] for p in o["probes"])})
    d = os.path.join(vlib.WORK, tag)
    p = os.path.join(d, "septrace.ndjson")
    with open(p, "w") as f:
        for r in recs:
            f.write(json.dumps(r) + "\n")
    tr = vlib.validate_trace(p, os.path.join(vlib.VERIF, "spec/trace/Trace_Sep.tla"),
                             os.path.join(vlib.VERIF, "spec/trace/Trace_Simple.cfg"), heap="4g", tag=f"{tag}-sep")
    cons = vlib.tagged_lines(tr["lines"], "CONSUMED")
    if not cons or cons[0]["n"] != len(recs):
        raise ToolError("separation trace not consumed:\n" + tr["tail"])
    violations = []
    for j in vlib.tagged_lines(tr["lines"], "JUDGED")[:20]:
        r = recs[j["line"] - 1]
        payload = {"property": "C13", "complaint": j["kind"], "program": cases[r["id"]]["_src"], "hash256": r["h256"],
                   "other_program": cases[j["other"]]["_src"] if j["kind"].startswith("equal") else None,
                   "pool": common, "vector": r["vec"]}
        violations.append((vlib.write_replay("C13", f"{tier}-s{len(violations)}", payload),
                           f"{j['kind']}: {cases[r['id']]['_src'].strip().splitlines()[-2][:120]}"))
    # negative control: give two programs with different vectors the same digest
    a = recs[0]
    b = next(x for x in recs if x["vec"] != a["vec"])
    pn = os.path.join(d, "sepneg.ndjson")
    with open(pn, "w") as f:
        f.write(json.dumps(a) + "\n" + json.dumps(dict(b, h256=a["h256"])) + "\n")
    tn = vlib.validate_trace(pn, os.path.join(vlib.VERIF, "spec/trace/Trace_Sep.tla"),
                             os.path.join(vlib.VERIF, "spec/trace/Trace_Simple.cfg"), heap="1g", tag=f"{tag}-sepneg")
    if not any(j["kind"] == "equal-digest-different-behaviour" for j in vlib.tagged_lines(tn["lines"], "JUDGED")):
        raise ToolError("binding self-test failed: forged digest collision accepted by Trace_Sep")
    ndig = len({r["h256"] for r in recs})
    nvec = len({r["vec"] for r in recs})
    cov = {"separation_programs": len(recs), "separation_distinct_digests": ndig, "separation_distinct_behaviours": nvec,
           "separation_pool_size": len(common), "separation_binding_selftest": "rejected: forged collision"}
    cov.update(rcov)
    return violations, cov, gstats["distinct"] + tr["distinct"], gstats["states"] + len(recs), len(recs)


def run(prop, tier):
    t0 = time.time()
    vlib.build()
    tag = f"{prop}-{tier}"
    vlib.clear_replays(prop, tier)
    v1, c1, s1, t1, n1 = writer_part(tier, tag)
    v2, c2, s2, t2, n2 = separation_part(tier, tag)
    v3, known_hits, c3, gst, consumed, tstates, states = p_rewrite.run_rewrite(prop, tier, tag)
    cov = {}
    cov.update(c1)
    cov.update(c2)
    cov.update(c3)
    cov.update({"states": s1 + s2 + gst["distinct"] + tstates, "transitions": t1 + t2 + gst["states"] + consumed,
                "traces_validated_against_impl": n1 + n2 + consumed,
                "samples": [{"writer_behaviour": [55, 64, 1], "then": "Digest", "checked": "bufferLength, bytesHashed, chunks after every step; digest == node:crypto"},
                            {"rewrite_class_seed": next(s["_src"] for s in states if s["steps"] == 0)}],
                "exhaustive": False,   # the writer model and the rewrite classes are enumerated completely, the separation programs include a sample
                "rule": "writer: all sequences of <= MaxWrites writes over 16 boundary sizes; separation: all TypeGen programs on the common pool; "
                        "invariance: Rewrite.tla classes"})
    vlib.write_evidence(prop, tier, cov, time.time() - t0, len(v1) + len(v2) + len(v3),
                        ["the SHA-256 compression function is uninterpreted in the spec; the digest value is compared with node:crypto on the same byte stream",
                         "separation is checked on the common pool (behavioural difference outside the pool is not seen)",
                         "b.*-built parsers are not generated yet"])
    vlib.finish(prop, v1 + v2 + v3, known_hits)

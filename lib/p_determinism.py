"""C10: compilation output is a deterministic function of the sources."""
import copy
import hashlib
import itertools
import json
import os
import random
import subprocess
import time

import vlib
import corpus
from vlib import ToolError, log

EXPR = {"str": '"s{i}"', "num": "{i}", "obj": '{{ k{i}: "v", n: {i} }}', "regex": "/re{i}/", "class": "class {{ m = {i} }}",
        "date": "new Date({i})", "arrow": "(x: number) => x + {i}", "tpl": "`t{i}`"}
FAILING = {"regex", "class", "date", "arrow"}


def render(kinds, style):
    m = "".join(f"export const e{i} = {EXPR[k].format(i=i)};\n" for i, k in enumerate(kinds, 1))
    names = [f"e{i}" for i in range(1, len(kinds) + 1)]
    if style == "namespace":
        entry = 'import * as ns from "./m";\ntype T = typeof ns;\nparse.buildParsers<{ T: T }>();\n'
        files = [("m.ts", m), ("entry.ts", entry)]
    elif style == "named":
        entry = 'import { ' + ", ".join(names) + ' } from "./m";\n' + "type T = { " + "; ".join(f"{n}: typeof {n}" for n in names) + " };\nparse.buildParsers<{ T: T }>();\n"
        files = [("m.ts", m), ("entry.ts", entry)]
    elif style == "star":
        files = [("m.ts", m), ("hop.ts", 'export * from "./m";\n'),
                 ("entry.ts", 'import * as ns from "./hop";\ntype T = typeof ns;\nparse.buildParsers<{ T: T }>();\n')]
    else:  # nsobject: every export also requested as its own parser
        entry = 'import * as ns from "./m";\n' + "".join(f"type T{i} = typeof ns.{n};\n" for i, n in enumerate(names, 1)) + \
                "parse.buildParsers<{ " + ", ".join(f"T{i}: T{i}" for i in range(1, len(names) + 1)) + " }>();\n"
        files = [("m.ts", m), ("entry.ts", entry)]
    return files


def render_wide(shape, n):
    """type-level projects with n alternatives at every choice point"""
    keys = ["kind", "type", "tag", "_t", "zed", "alpha"][:max(2, min(n, 6))]
    if shape == "multidisc":
        unions = []
        for u in range(3):
            members = []
            for m in range(n):
                members.append("{ " + "; ".join(f'{k}: "{k}{u}{m}"' for k in keys) + f"; v{m}: number }}")
            unions.append(f"type U{u} = " + " | ".join(members) + ";")
        body = "\n".join(unions) + "\ntype T = { a: U0; b: U1[]; c?: U2 };\n"
        roots = ["T"]
    elif shape == "nesteddisc":
        inner = " | ".join("{ " + "; ".join(f'{k}: "{k}{m}"' for k in keys) + " }" for m in range(n))
        body = f"type I = {inner};\ntype T = " + " | ".join(
            "{ " + "; ".join(f'{k}: "o{k}{m}"' for k in keys) + "; inner: I }" for m in range(n)) + ";\n"
        roots = ["T", "I"]
    elif shape == "manyprops":
        body = "type T = { " + "; ".join(f"p{(i * 7) % (3 * n)}_{i}: " + ["string", "number", '"l"', "{ q: 1 }", "string[]"][i % 5] for i in range(3 * n)) + " };\n"
        roots = ["T"]
    elif shape == "manyaliases":
        body = "".join(f"type A{i} = {{ v{i}: {'A' + str(i + 1) if i + 1 < 2 * n else 'string'}; w: A{(i * 5 + 1) % (2 * n)}[] }};\n" for i in range(2 * n))
        body += "type T = " + " | ".join(f"A{i}" for i in range(2 * n)) + ";\n"
        roots = ["T"]
    elif shape == "manyroots":
        body = "".join(f"type R{i} = {{ k: \"r{i}\"; n: R{(i + 1) % (2 * n)} | null }};\n" for i in range(2 * n))
        roots = [f"R{i}" for i in reversed(range(2 * n))]
    elif shape == "manyenums":
        body = "".join(f"enum E{i} {{ " + ", ".join(f'M{j} = "e{i}m{j}"' for j in range(n)) + " }\n" for i in range(n))
        body += "type T = { " + "; ".join(f"e{i}: E{i}; m{i}: E{i}.M{i % n}" for i in range(n)) + " };\n"
        roots = ["T"]
    elif shape == "manygenerics":
        body = "type G<X, Y> = { x: X; y: Y; next?: G<X, Y> };\n"
        args = ["string", "number", "boolean", "null", '"a"', "1", "string[]", "{ z: 1 }"][:n + 2]
        body += "type T = { " + "; ".join(f"g{i}: G<{a}, string>; h{i}: G<{a}, {args[(i + 1) % len(args)]}>" for i, a in enumerate(args)) + " };\n"
        roots = ["T"]
    elif shape == "twindocs":
        names = ["Alpha", "Bravo", "Carol", "Delta", "Eagle", "Fargo"][:max(2, min(n, 6))]
        files = []
        for nm in names:
            files.append((nm.lower() + ".ts", f"/** {nm} id */\nexport type {nm} = {{\n  /** {nm} key */\n  key: string;\n}};\n"))
        entry = "".join(f'import {{ {nm} }} from "./{nm.lower()}";\n' for nm in names)
        entry += "type T = { " + "; ".join(f"{nm.lower()}: {nm}" for nm in names) + " };\n"
        entry += "parse.buildParsers<{ T: T, " + ", ".join(f"{nm}: {nm}" for nm in names) + " }>();\n"
        return files + [("entry.ts", entry)]
    else:  # intersections
        body = "".join(f"type B{i} = {{ b{i}: number; shared: {' | '.join(repr(chr(97 + j)) for j in range(i, n + 1))} }};\n".replace("'", '"') for i in range(n))
        body += "type T = " + " & ".join(f"B{i}" for i in range(n)) + ";\ntype U = " + " | ".join(f"(B{i} & {{ t: \"{i}\" }})" for i in range(n)) + ";\n"
        roots = ["T", "U"]
    call = "parse.buildParsers<{ " + ", ".join(f"{r}: {r}" for r in roots) + " }>();\n"
    return [("entry.ts", body + call)]


REC_DECL = {
    "tuplerest": ("type T = [number, ...T[]];", "T"),
    "optnext": ("type T = { v: string; next?: T };", "T"),
    "nullnext": ("type T = { v: string; next: T | null };", "T"),
    "kids": ("type T = { v: string; kids: T[] };", "T"),
    "twokids": ("type T = { v: string; kids: T[] }; type U = { v: number; kids: U[] };", "(T | U)"),
    "twotuples": ("type T = [string, ...T[]]; type U = [number, ...U[]];", "(T | U)"),
}
REC_OP = {"exclude": "Exclude<{0} | string | null, string>", "nonnullable": "NonNullable<{0} | null>", "keyof": "keyof {0}",
          "index": '{0}["kids" | "next" | 0]'}


def render_rec(shape, op):
    """a computed type over a recursive operand (some combinations are diagnosed by the compiler: a diagnostic is an output too)"""
    decl, name = REC_DECL[shape]
    return [("entry.ts", 'import parse from "./parser";\n' + decl + "\ntype E = " + REC_OP[op].format(name) + ";\nparse.buildParsers<{ E: E }>();\n")]


def digest(r):
    if r["outcome"] == "code":
        body = r["code"]
    elif r["outcome"] == "diags":
        body = json.dumps(r["diags"], sort_keys=True)
    else:
        body = json.dumps({k: v for k, v in r.items() if k != "id"}, sort_keys=True)
    return r["outcome"] + ":" + hashlib.sha256(body.encode()).hexdigest()


def one_process(reqs):
    """a fresh OS process (= fresh hash seeds) compiles all requests"""
    p = subprocess.run([vlib.bin_path("beffc")], input="\n".join(json.dumps(r) for r in reqs) + "\n",
                       stdout=subprocess.PIPE, stderr=subprocess.DEVNULL, text=True, timeout=1200)
    out = {}
    for line in p.stdout.splitlines():
        if line.strip():
            j = json.loads(line)
            out[j["id"]] = j
    for r in reqs:   # a request the process died on
        out.setdefault(r["id"], {"id": r["id"], "outcome": "abort"})
    return out


def run(prop, tier):
    t0 = time.time()
    vlib.build()
    tag = f"{prop}-{tier}"
    vlib.clear_replays(prop, tier)
    d = os.path.join(vlib.WORK, tag)
    os.makedirs(d, exist_ok=True)
    cfg = os.path.join(d, "MC_Determinism.cfg")
    n = 3 if tier == "quick" else 4
    vlib.write_cfg(cfg, spec="GSpec", constants={"NExports": n}, invariants=["EmitInv"])
    gr = vlib.run_tlc(cfg, os.path.join(vlib.VERIF, "spec/mc/MC_Determinism.tla"), workers=8, heap="4g", tag="determinism")
    if not gr["ok"]:
        raise ToolError("project generation failed:\n" + gr["tail"])
    projs = []
    for p in vlib.tagged_lines(gr["lines"], "PROJ"):
        projs.append({"origin": "generated", "kinds": p["kinds"], "style": p["style"], "files": render(p["kinds"], p["style"]),
                      "multifail": sum(1 for k in p["kinds"] if k in FAILING) >= 2})
    cfgw = os.path.join(d, "MC_Determinism_wide.cfg")
    vlib.write_cfg(cfgw, spec="WSpec", constants={"NExports": n}, invariants=["EmitWide"])
    gw = vlib.run_tlc(cfgw, os.path.join(vlib.VERIF, "spec/mc/MC_Determinism.tla"), workers=4, heap="2g", tag="determinism-wide")
    if not gw["ok"]:
        raise ToolError("wide project generation failed:\n" + gw["tail"])
    for p in vlib.tagged_lines(gw["lines"], "WIDE"):
        projs.append({"origin": "generated", "kinds": [p["shape"], p["width"]], "style": "wide", "files": render_wide(p["shape"], p["width"]), "multifail": False})
    # the programs of the type-generator families in which the compiler chooses among alternatives
    import p_val
    cases, gst = p_val.generate([("union", 1), ("disc", 1), ("object", 1)] if tier == "quick" else [("union", 2), ("disc", 2), ("object", 2), ("util", 1)], tag + "-gen")
    for c in cases:
        projs.append({"origin": "typegen", "name": vlib.ts(c.get("nty", c["ty"]))[:80], "files": [("entry.ts", vlib.render_program(c["env"], c.get("nty", c["ty"])))], "multifail": False})
    # computed types over recursive operands: the engine writes them back under generated names (RecursiveGeneratedN)
    cfgr = os.path.join(d, "MC_Determinism_rec.cfg")
    vlib.write_cfg(cfgr, spec="RSpec", constants={"NExports": n}, invariants=["EmitRec"])
    grr = vlib.run_tlc(cfgr, os.path.join(vlib.VERIF, "spec/mc/MC_Determinism.tla"), workers=2, heap="1g", tag="determinism-rec")
    if not grr["ok"]:
        raise ToolError("recursive-computed project generation failed:\n" + grr["tail"])
    for p in vlib.tagged_lines(grr["lines"], "REC"):
        projs.append({"origin": "generated", "kinds": [p["shape"], p["op"]], "style": "recursive-computed", "files": render_rec(p["shape"], p["op"]), "multifail": False})
    for c in corpus.programs():
        # corpus programs that are known to diverge (cyclic aliases) are excluded by C04's watchdog there; here skip hangs by timeout
        projs.append({"origin": "corpus", "name": c["name"], "files": list(c["files"]), "multifail": False})
    rng = random.Random(vlib.seed())
    K = 6 if tier == "quick" else 12
    # registration orders: none (lazy), given order, reversed, entry first
    def orders(files):
        names = [n for n, _ in files]
        outs = [[], names, list(reversed(names))]
        if len(names) > 2:
            sh = names[:]
            rng.shuffle(sh)
            outs.append(sh)
        return outs
    reqs_by_proc = [[] for _ in range(K)]
    meta = {}
    rid = 0
    for pi, p in enumerate(projs):
        for oi, order in enumerate(orders(p["files"])):
            for k in range(K):
                if oi > 0 and k >= 2:
                    continue          # every order in 2 processes, the lazy order in all K
                r = vlib.compile_req(rid, p["files"], register=order)
                reqs_by_proc[k].append(r)
                meta[rid] = (pi, oi, k, order)
                rid += 1
    # a compilation must not depend on what the same process compiled before it: the processes go through the projects in
    # different orders (as generated, reversed, seeded shuffles), so every project meets different predecessors
    for k in range(K):
        if k % 3 == 1:
            reqs_by_proc[k].reverse()
        elif k % 3 == 2:
            rng.shuffle(reqs_by_proc[k])
    import concurrent.futures as cf
    with cf.ThreadPoolExecutor(max_workers=K) as ex:
        outs = list(ex.map(one_process, reqs_by_proc))
    recs = []
    for k, out in enumerate(outs):
        for i, r in out.items():
            pi, oi, kk, order = meta[i]
            recs.append({"proj": pi, "order": oi, "pid": kk, "outcome": r["outcome"], "digest": digest(r), "multifail": projs[pi]["multifail"],
                         "_r": r, "_order": order})
    recs.sort(key=lambda r: (r["proj"], r["pid"], r["order"]))
    open_k = vlib.open_findings("C10")
    dev_to_k = {k["deviation"]: k for k in open_k if k.get("deviation")}
    judged, consumed, tstates = judge(recs, tag, set(dev_to_k))
    # negative control
    a = copy.deepcopy(recs[0])
    b = copy.deepcopy(recs[0])
    b["pid"] = 99
    b["digest"] = "code:" + "0" * 64
    jd, _, _ = judge([a, b], tag + "-neg", set(dev_to_k))
    if not any(j["kind"] == "output-differs-between-processes" for j in jd):
        raise ToolError("binding self-test failed: differing digests accepted by Trace_Determinism")
    violations, known_hits = [], []
    seen = set()
    for j in judged:
        r = recs[j["gline"]]
        p = projs[r["proj"]]
        if j["class"] in dev_to_k:
            known_hits.append((dev_to_k[j["class"]]["id"], dev_to_k[j["class"]]["what"]))
            continue
        if r["proj"] in seen:
            continue
        seen.add(r["proj"])
        firstr = next(x for x in recs if x["proj"] == r["proj"])
        payload = {"property": prop, "complaint": j["kind"], "files": p["files"], "registration_order": r["_order"],
                   "this_run": {k: v for k, v in r["_r"].items()}, "first_run": {k: v for k, v in firstr["_r"].items()},
                   "first_registration_order": firstr["_order"]}
        path = vlib.write_replay(prop, f"{tier}-{len(violations)}", payload)
        violations.append((path, f"{j['kind']}: {p.get('kinds') or p.get('name')} {p.get('style', '')}"))
    cov = {"states": gr["distinct"] + gw["distinct"] + gst["distinct"] + tstates, "transitions": gr["states"] + gw["states"] + gst["states"] + consumed, "traces_validated_against_impl": consumed,
           "samples": [{"files": projs[0]["files"], "orders": orders(projs[0]["files"])}],
           "projects": len(projs), "typegen_projects": sum(1 for p in projs if p["origin"] == "typegen"), "generated_projects": sum(1 for p in projs if p["origin"] == "generated"),
           "processes": K, "compilations": len(recs), "known_findings_hit": sorted({k for k, _ in known_hits}),
           "binding_selftest": "rejected: output-differs-between-processes", "exhaustive": False,
           "rule": f"every project of Determinism.tla (all kind vectors of length {n} x 4 access styles) and every corpus program, compiled in "
                   f"{K} fresh OS processes (lazy registration) and under 2-3 other registration orders"}
    vlib.write_evidence(prop, tier, cov, time.time() - t0, len(violations),
                        ["fresh hash seeds are obtained by really spawning processes; equality is over the bytes of the emitted code / the "
                         "serialized diagnostics list"])
    vlib.finish(prop, violations, known_hits)


def judge(recs, tag, open_devs, shards=8):
    d = os.path.join(vlib.WORK, tag)
    os.makedirs(d, exist_ok=True)
    openf = os.path.join(d, "open.ndjson")
    with open(openf, "w") as f:
        f.write(json.dumps({"devs": sorted(open_devs)}) + "\n")
    # a project's observations must stay in one shard
    shards = max(1, min(shards, len(recs) // 200 + 1))
    idx = [[] for _ in range(shards)]
    for i, r in enumerate(recs):
        idx[r["proj"] % shards].append(i)
    idx = [x for x in idx if x]
    import concurrent.futures as cf
    paths = []
    for s, ix in enumerate(idx):
        p = os.path.join(d, f"dtrace{s}.ndjson")
        with open(p, "w") as f:
            for i in ix:
                f.write(json.dumps({k: v for k, v in recs[i].items() if not k.startswith("_")}) + "\n")
        paths.append(p)

    def one(s):
        return vlib.validate_trace(paths[s], os.path.join(vlib.VERIF, "spec/trace/Trace_Determinism.tla"),
                                   os.path.join(vlib.VERIF, "spec/trace/Trace_Simple.cfg"), heap="3g", tag=f"{tag}-{s}",
                                   env_extra={"OPEN": openf})

    judged, consumed, states = [], 0, 0
    with cf.ThreadPoolExecutor(max_workers=len(idx)) as ex:
        for s, r in enumerate(ex.map(one, range(len(idx)))):
            cons = vlib.tagged_lines(r["lines"], "CONSUMED")
            if not cons or cons[0]["n"] != len(idx[s]):
                raise ToolError(f"determinism trace {s} not consumed: {cons}\n{r['tail']}")
            consumed += cons[0]["n"]
            states += r["distinct"]
            for j in vlib.tagged_lines(r["lines"], "JUDGED"):
                j["gline"] = idx[s][j["line"] - 1]
                judged.append(j)
    return judged, consumed, states

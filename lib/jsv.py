"""Run by python3-vt: Draft 2020-12 verdicts of python jsonschema (calibration of JsonSchema.tla) and python-re
pattern tables. stdin: ndjson {id, roots:[json|null], docs:[json], pats:[str], strs:[str]};
stdout: ndjson {id, jsv:[[T/F/N per doc] per root], pats:[{p,s,m}]}"""
import json
import re
import sys

from jsonschema import Draft202012Validator

for line in sys.stdin:
    j = json.loads(line)
    out = {"id": j["id"], "jsv": [], "pats": []}
    for root in j["roots"]:
        row = []
        if root is None:
            row = ["N"] * len(j["docs"])
        else:
            try:
                v = Draft202012Validator(root)
            except Exception:
                v = None
            for d in j["docs"]:
                try:
                    row.append("T" if v.is_valid(d) else "F")
                except Exception:
                    row.append("N")
        out["jsv"].append(row)
    for p in j["pats"]:
        try:
            rx = re.compile(p)
        except re.error:
            rx = None
        for s in j["strs"]:
            out["pats"].append({"p": p, "s": s, "m": bool(rx.search(s)) if rx else False})
    sys.stdout.write(json.dumps(out) + "\n")

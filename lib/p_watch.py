"""C14: watch-mode rebuilds depend on current file contents only.

Watch.tla models the session (disk, BUNDLER cache, watched files, Edit / Rebuild).  TLC checks HistoryIndependent and
CacheCoherent on the complete state graph and emits a shortest history to every state; every history (plus seeded random
walks) is replayed on the real beff-wasm session code through the cfg(beff_verif) native host, and Trace_Watch.tla
validates each step against the model and requires rebuild output == fresh-process output."""
import copy
import json
import os
import random
import subprocess
import time

import vlib
from vlib import ToolError, log

TEXT = {
    "e1": 'import { M } from "./m1";\ntype L = "one";\nparse.buildParsers<{ M: M, L: L }>();\n',
    "e2": 'import { M } from "./m1";\ntype L = "two";\nparse.buildParsers<{ M: M, L: L }>();\n',
    "e3n": 'import { M } from "./m1";\nimport { N } from "./m2";\ntype L = N;\nparse.buildParsers<{ M: M, L: L }>();\n',
    "e4v": 'import { M, KV } from "./m1";\ntype L = (typeof KV)[number];\nparse.buildParsers<{ M: M, L: L }>();\n',
    "ebroken": 'import { M } from "./m1";\ntype L = ;;; {{{ \nparse.buildParsers<{ M: M, L: L }>();\n',
    "a1": 'export type M = { x: "a1" };\n',
    "a2": 'export type M = { x: "a2" };\n',
    "a3imp": 'import { N } from "./m2";\nexport type M = { x: "a3", n: N };\n',
    "a4imp": 'import { N } from "./m2";\nexport type M = { x: "a4", n: N };\n',
    "astar": 'export * from "./m2";\nexport type M = { x: "as" };\n',
    "aunres": 'export type Other = string;\n',
    "abroken": 'export type M = {{{{ \n',
    "a1d": '/** the first description */\nexport type M = { x: "a1" };\n',
    "a1e": '/** another description, after an edit */\nexport type M = { x: "a1" };\n',
    "aloc": 'export type M = { x: Nope };\n',
    "aloc2": '\n\n    export type M = { x: Nope };\n',
    "b1": 'export type N = "b1";\nexport const KV = ["k1"] as const;\n',
    "b2": 'export type N = "b2";\nexport const KV = ["k2"] as const;\n',
    "bbroken": 'export type N = ((( ;\n',
}
PATH = {"entry": "entry.ts", "m1": "m1.ts", "m2": "m2.ts"}
VARIANTS = {"entry": ["e1", "e2", "e3n", "e4v", "ebroken"], "m1": ["a1", "a2", "a3imp", "a4imp", "astar", "aunres", "abroken", "a1d", "a1e", "aloc", "aloc2"], "m2": ["b1", "b2", "bbroken"]}


def model(tag, deviations, design=False):
    """design=True: the intended design ({} deviations) must satisfy the invariants on the complete graph;
    design=False: the machine as implemented (open deviations) generates one shortest history per state"""
    d = os.path.join(vlib.WORK, tag)
    os.makedirs(d, exist_ok=True)
    cfg = os.path.join(d, "MC_Watch.cfg")
    dev = "{" + ", ".join(json.dumps(x) for x in sorted(deviations)) + "}"
    vlib.write_cfg(cfg, spec="MSpec", constants={"MaxSteps": 1000, "Deviations": dev},
                   invariants=(["HistoryIndependent", "CacheCoherent"] if design else ["EmitInv"]), view="View")
    r = vlib.run_tlc(cfg, os.path.join(vlib.VERIF, "spec/mc/MC_Watch.tla"), workers=8, heap="6g", tag="watch")
    if r["violated"] or not r["ok"]:
        raise ToolError("Watch.tla: " + ("the design invariant fails" if design else "history generation failed") + ":\n" + r["tail"])
    return vlib.tagged_lines(r["lines"], "HIST"), r


def sessions(jobs):
    p = subprocess.run([vlib.bin_path("session")], input="\n".join(json.dumps(j) for j in jobs) + "\n",
                       stdout=subprocess.PIPE, stderr=subprocess.DEVNULL, text=True, timeout=1800)
    if p.returncode != 0:
        raise ToolError(f"session replay binary failed rc={p.returncode}")
    return {j["id"]: j for j in (json.loads(l) for l in p.stdout.splitlines() if l.strip())}


def run(prop, tier):
    t0 = time.time()
    vlib.build()
    tag = f"{prop}-{tier}"
    vlib.clear_replays(prop, tier)
    open_k = vlib.open_findings("C14")
    deviations = {k["deviation"] for k in open_k if k.get("deviation")}
    _, dr = model(tag + "-design", set(), design=True)
    hists, mr = model(tag, deviations)
    histories = [h["hist"] for h in hists if h["hist"]]
    # every edge of the graph: extend each state's history by every possible next step
    edge = []
    for h in histories + [[]]:
        edge.append(h + [{"op": "rebuild", "f": "", "c": ""}])
        for f, vs in VARIANTS.items():
            for c in vs:
                edge.append(h + [{"op": "edit", "f": f, "c": c}])
        edge.append(h + [{"op": "delete", "f": "m2", "c": "missing"}])
        for c in VARIANTS["m2"]:
            edge.append(h + [{"op": "create", "f": "m2", "c": c}])
    rng = random.Random(vlib.seed())
    walks = []
    nwalk, depth = (300, 30) if tier == "quick" else (5000, 40)
    for _ in range(nwalk):
        w = []
        for _ in range(depth):
            x = rng.random()
            if x < 0.3:
                w.append({"op": "rebuild", "f": "", "c": ""})
            elif x < 0.38:
                w.append({"op": "delete", "f": "m2", "c": "missing"})
            elif x < 0.46:
                w.append({"op": "create", "f": "m2", "c": rng.choice(VARIANTS["m2"])})
            else:
                f = rng.choice(list(VARIANTS))
                w.append({"op": "edit", "f": f, "c": rng.choice(VARIANTS[f])})
        walks.append(w)
    allh = edge + walks
    log(f"[watch] {mr['distinct']} model states, {len(edge)} edge-cover histories, {len(walks)} random walks")

    def legal(h):
        # drop steps that are not enabled in the model (edit without change or of a missing file, create of an existing file,
        # delete of a missing one); keep order
        cur = {"entry": "e1", "m1": "a1", "m2": "b1"}
        out = []
        for s in h:
            if s["op"] == "edit":
                if cur[s["f"]] == s["c"] or cur[s["f"]] == "missing":
                    continue
                cur[s["f"]] = s["c"]
            elif s["op"] == "create":
                if cur[s["f"]] != "missing":
                    continue
                cur[s["f"]] = s["c"]
            elif s["op"] == "delete":
                if cur[s["f"]] == "missing":
                    continue
                cur[s["f"]] = "missing"
            out.append(s)
        return out

    allh = [legal(h) for h in allh]
    allh = [h for h in allh if h]
    jobs = []
    for i, h in enumerate(allh):
        jobs.append({"id": i, "entry": "entry.ts", "init": {PATH[f]: TEXT[v] for f, v in (("entry", "e1"), ("m1", "a1"), ("m2", "b1"))},
                     "steps": [{"op": s["op"], "f": PATH.get(s["f"], ""), "text": TEXT.get(s["c"], "")} for s in h]})
    nsh = 12
    import concurrent.futures as cf
    with cf.ThreadPoolExecutor(max_workers=nsh) as ex:
        parts = list(ex.map(lambda k: sessions(jobs[k::nsh]), range(nsh)))
    res = {}
    for p in parts:
        res.update(p)
    traces = [[] for _ in range(nsh)]
    nsteps = 0
    for i, h in enumerate(allh):
        r = res.get(i)
        if r is None or r.get("panic"):
            raise ToolError(f"session replay of history {i} crashed")
        t = traces[i % nsh]
        t.append({"op": "reset", "hid": i})
        for s, ev in zip(h, r["events"]):
            t.append({"op": s["op"], "f": PATH.get(s["f"], ""), "c": s["c"], "hid": i, "built": ev["built"],
                      "out": ev["out"], "fresh": ev["fresh"], "cache": ev["cache"], "watched": ev["watched"]})
            nsteps += 1
    judged, consumed, tstates = judge(traces, tag, deviations)
    neg = negative_control(traces, tag, deviations)
    violations, known_hits = [], []
    dev_to_k = {k["deviation"]: k for k in open_k if k.get("deviation")}
    seen = set()
    for j in judged:
        t = j["_trace"]
        ln = t[j["line"] - 1]
        h = allh[ln["hid"]]
        if j["kind"].startswith("known:") and j["kind"][6:] in dev_to_k:
            kf = dev_to_k[j["kind"][6:]]
            known_hits.append((kf["id"], kf["what"]))
            continue
        k = (j["kind"], ln["hid"])
        if k in seen:
            continue
        seen.add(k)
        payload = {"property": prop, "complaint": j["kind"], "history": h, "texts": TEXT, "paths": PATH,
                   "step": {x: ln[x] for x in ("op", "f", "c", "built", "out", "fresh", "cache", "watched")}}
        path = vlib.write_replay(prop, f"{tier}-{len(violations)}", payload)
        violations.append((path, f"{j['kind']} after history {[(s['op'], s['f'], s['c']) for s in h][:8]}"))
        if len(violations) >= 20:
            break
    cov = {"states": mr["distinct"] + dr["distinct"] + tstates, "transitions": mr["states"] + dr["states"] + consumed,
           "design_model_states": dr["distinct"], "known_findings_hit": sorted({k for k, _ in known_hits}), "traces_validated_against_impl": len(allh),
           "samples": [{"history": allh[len(edge) // 2]}, {"history": allh[-1][:6]}],
           "model_states": mr["distinct"], "edge_cover_histories": len(edge), "random_walks": len(walks), "steps_replayed": nsteps,
           "design_invariants": "HistoryIndependent, CacheCoherent on the complete state graph",
           "binding_selftest": neg, "exhaustive": True,
           "rule": "complete state graph of Watch.tla (3 files; 3/6/3 content variants incl. unresolvable and broken; m2 can be deleted and created); one shortest history per "
                   "state extended by every possible step (edge cover) + seeded random walks"}
    vlib.write_evidence(prop, tier, cov, time.time() - t0, len(violations),
                        ["the native host (cfg beff_verif) stands for the JS imports of the wasm module; the watch loop of commandeer.ts "
                         "(update only for watched files, then rebuild) is transcribed in the session binary",
                         "fresh process = new thread with an empty BUNDLER (thread-local) and the current disk"])
    vlib.finish(prop, violations, known_hits)


def judge(traces, tag, deviations):
    d = os.path.join(vlib.WORK, tag)
    os.makedirs(d, exist_ok=True)
    cfgp = os.path.join(d, "Trace_Watch.cfg")
    dev = "{" + ", ".join(json.dumps(x) for x in sorted(deviations)) + "}"
    vlib.write_cfg(cfgp, spec="TraceSpec", constants={"MaxSteps": 100000000, "Deviations": dev}, invariants=["Report"],
                   postcondition="Accepted")
    import concurrent.futures as cf
    paths = []
    for s, lines in enumerate(traces):
        p = os.path.join(d, f"wtrace{s}.ndjson")
        with open(p, "w") as f:
            for ln in lines:
                f.write(json.dumps(ln) + "\n")
        paths.append(p)

    def one(s):
        return vlib.validate_trace(paths[s], os.path.join(vlib.VERIF, "spec/trace/Trace_Watch.tla"), cfgp, heap="3g", tag=f"{tag}-{s}")

    judged, consumed, states = [], 0, 0
    with cf.ThreadPoolExecutor(max_workers=max(1, len(traces))) as ex:
        for s, r in enumerate(ex.map(one, range(len(traces)))):
            cons = vlib.tagged_lines(r["lines"], "CONSUMED")
            if not cons or cons[0]["n"] != len(traces[s]):
                raise ToolError(f"watch trace {s}: a logged step is not a step of Watch.tla: {cons}\n{r['tail']}")
            consumed += cons[0]["n"]
            states += r["distinct"]
            for j in vlib.tagged_lines(r["lines"], "JUDGED"):
                j["_trace"] = traces[s]
                judged.append(j)
    return judged, consumed, states


def negative_control(traces, tag, deviations):
    lines = copy.deepcopy(traces[0][:30])
    for ln in lines:
        if ln["op"] != "reset" and ln["built"]:
            ln["out"] = dict(ln["out"], text=ln["out"]["text"] + "// stale")
            jd, _, _ = judge([lines], tag + "-neg", deviations)
            if any(j["kind"] == "rebuild-differs-from-fresh-process" for j in jd):
                return "rejected: rebuild-differs-from-fresh-process"
            break
    raise ToolError("binding self-test failed: corrupted rebuild output accepted by Trace_Watch")

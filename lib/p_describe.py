"""C15: describe() prints TypeScript that compiles back to the same validator."""
import json
import os
import re
import time

import vlib
import p_val
from vlib import ToolError, log

FAMILIES_QUICK = [("prim", 1), ("object", 1), ("tuple", 1), ("union", 1), ("tpl", 1), ("nonjson", 1), ("format", 1), ("disc", 1), ("describe", 1), ("util", 1), ("twin", 0)]
FAMILIES_THOROUGH = [("prim", 2), ("object", 2), ("tuple", 2), ("union", 2), ("tpl", 2), ("nonjson", 2), ("format", 2), ("disc", 2), ("describe", 2), ("util", 2), ("twin", 1)]

DECL = re.compile(r"^type\s+([A-Za-z_$][A-Za-z0-9_$]*)\s*=", re.M)


def ref_under_union(t, under=False):
    """syntactic projection: is there a named reference (ref / enumref / app / typeof) beneath a union or intersection?"""
    if isinstance(t, dict):
        k = t.get("t")
        if under and k in ("ref", "enumref", "enummember", "app", "typeof"):
            return True
        u = under or k in ("union", "inter")
        return any(ref_under_union(v, u) for v in t.values())
    if isinstance(t, list):
        return any(ref_under_union(v, under) for v in t)
    return False


def named_inter_member(t):
    """syntactic projection: is there an intersection one of whose members is a named reference?"""
    if isinstance(t, dict):
        if t.get("t") == "inter" and any(isinstance(m, dict) and m.get("t") in ("ref", "app") for m in t.get("ms", [])):
            return True
        return any(named_inter_member(v) for v in t.values())
    if isinstance(t, list):
        return any(named_inter_member(v) for v in t)
    return False


def norm_text(t):
    """the described text without documentation comments and layout (a description is metadata: the property speaks about the
    values accepted and the hash256 of the re-compiled text, and beff does not attach a comment to every kind of member)"""
    t = re.sub(r"/\*\*.*?\*/", "", t, flags=re.S)
    t = re.sub(r"\s+", " ", t).replace("{ ", "{").replace(" }", "}").strip()
    # members of a documented object are printed one per line with ';', of an undocumented one on one line with ','
    t = t.replace(";", ",").replace(", ", ",")
    return t.replace(",}", "}")


def optional_index_next_to_named(text):
    """syntactic projection of the describe() text: is there an object literal with an optional mapped member
    ([K in X]?: V) next to at least one other member?  (TypeScript has no spelling for that object type.)"""
    stack = []          # per open brace: list of member texts at that level
    for ch in text:
        if ch == "{":
            stack.append([""])
        elif ch == "}":
            if stack:
                ms = [m.strip() for m in stack.pop() if m.strip()]
                if len(ms) >= 2 and any(m.startswith("[K in ") and "]?:" in m for m in ms):
                    return True
                if stack:
                    stack[-1][-1] += "{}"
        elif ch in ",;" and stack and not _open_parens(stack[-1][-1]):
            stack[-1].append("")
        elif stack:
            stack[-1][-1] += ch
    return False


def _open_parens(m):
    return m.count("(") > m.count(")") or m.count("[") > m.count("]") or m.count("<") > m.count(">") - m.count("=>")


INEXACT_LITERALS = ["3.14159"]      # BeffSem!InexactFractions


def has_recursive_decl(env):
    """syntactic projection: is there a recursive declaration whose body mentions a non-recursive named type?"""
    def refs(t, acc):
        if isinstance(t, dict):
            if t.get("t") in ("ref", "app") and "n" in t:
                acc.add(t["n"])
            for v in t.values():
                refs(v, acc)
        elif isinstance(t, list):
            for v in t:
                refs(v, acc)
        return acc
    g = {d["n"]: refs(d.get("ty", {}), set()) for d in env}

    def reaches_itself(n):
        seen, todo = set(), list(g[n])
        while todo:
            x = todo.pop()
            if x == n:
                return True
            if x in seen or x not in g:
                continue
            seen.add(x)
            todo += list(g[x])
        return False
    rec = {n for n in g if reaches_itself(n)}
    # describe() inlines named types that are referenced once: a recursive declaration whose body mentions a named type
    # that is not itself recursive can come back as an unrolling
    return any(m in g and m not in rec for n in rec for m in g[n])


def vec(o):
    return "".join(p["val"][0] for p in o["probes"]) + "|" + "".join(p["vals"][0] for p in o["probes"])


def run(prop, tier):
    t0 = time.time()
    vlib.build()
    tag = f"{prop}-{tier}"
    vlib.clear_replays(prop, tier)
    fams = FAMILIES_QUICK if tier == "quick" else FAMILIES_THOROUGH
    cases, gstats = p_val.generate(fams, tag)
    common = __import__("p_hash").pool()
    # the program of Modules.tla spread over files (every layout within 2 / 3 changes of the single-file program): named types
    # of other files, same-named declarations, paths that become parts of generated identifiers
    import p_modules
    ld = os.path.join(vlib.WORK, tag + "-layouts")
    os.makedirs(ld, exist_ok=True)
    layouts, lgr = p_modules.layouts_to_depth(ld, 2 if tier == "quick" else 3)
    lprobes = p_modules.layout_probes()
    seen_files = set()
    nlay = 0
    for L in layouts:
        if L["expected"] != "same-as-single-file":
            continue
        files = p_modules.render(L)
        key = json.dumps(files)
        if key in seen_files:
            continue
        seen_files.add(key)
        nlay += 1
        cases.append({"fam": "layout", "ty": {"t": "ref", "n": "T"}, "env": [], "probes": [{"v": v} for v in lprobes], "_files": files,
                      "_recursive": True})
    gstats = dict(gstats, distinct=gstats["distinct"] + lgr["distinct"], states=gstats["states"] + lgr["states"],
                  families=dict(gstats["families"], layout={"depth": 2 if tier == "quick" else 3, "programs": nlay}))
    # generation 1
    reqs = []
    for i, c in enumerate(cases):
        if "_files" in c:
            c["_src"] = "\n".join(f"// file {n}\n{t}" for n, t in c["_files"])
            reqs.append(vlib.compile_req(i, c["_files"]))
            continue
        c["_src"] = vlib.render_program(c["env"], c["ty"])
        reqs.append(vlib.compile_req(i, [("entry.ts", c["_src"])]))
    comp = vlib.compile_all(reqs)
    jobs = []
    for i, (c, r) in enumerate(zip(cases, comp)):
        c["_comp"] = r
        c["_probes"] = [p["v"] for p in c["probes"]] + ([] if "_files" in c else common)
        if r["outcome"] == "code":
            jobs.append({"id": i, "code": r["code"], "root": "T", "probes": c["_probes"], "ops": ["validate", "hash", "describe"]})
    obs1 = vlib.run_driver(jobs, tag + "-g1")
    # generation 2
    reqs2, idx2 = [], []
    for i, c in enumerate(cases):
        o = obs1.get(i)
        if o is None or o["load"] != "ok" or not o["describe"]["ok"]:
            continue
        # the root alias is the last declaration of the text (Codec<key>, or a non-colliding variant of it)
        names = DECL.findall(o["describe"]["v"])
        src2 = o["describe"]["v"] + "\nparse.buildParsers<{ T: %s }>();\n" % (names[-1] if names else "CodecT")
        c["_src2"] = src2
        reqs2.append(vlib.compile_req(len(reqs2), [("entry.ts", src2)]))
        idx2.append(i)
    comp2 = vlib.compile_all(reqs2)
    jobs2 = []
    for k, (i, r) in enumerate(zip(idx2, comp2)):
        cases[i]["_comp2"] = r
        if r["outcome"] == "code":
            jobs2.append({"id": i, "code": r["code"], "root": "T", "probes": cases[i]["_probes"], "ops": ["validate", "hash", "describe"]})
    obs2 = vlib.run_driver(jobs2, tag + "-g2")
    recs = []
    for i, c in enumerate(cases):
        o1 = obs1.get(i)
        rec = {"id": i, "outcome": c["_comp"]["outcome"] if (o1 is None or o1["load"] == "ok") else "load-failed",
               "refunder": ref_under_union(c["ty"]) or any(ref_under_union(d.get("ty", {})) for d in c["env"]),
               "recursive": c.get("_recursive", False) or has_recursive_decl(c["env"]),
               "inexactlit": any(x in c["_src"] for x in INEXACT_LITERALS),
               "namedinter": named_inter_member(c["ty"]) or any(named_inter_member(d.get("ty", {})) for d in c["env"]),
               "optixnamed": False,
               "tploneof": '"p": "oneof"' in json.dumps(c["ty"]) or '"p": "oneof"' in json.dumps(c["env"]), "desc1ok": False, "desc1": "", "decls": [], "vec1": "", "h1": "", "outcome2": "none", "vec2": "", "h2": "", "desc2": "", "desc1n": "", "desc2n": ""}
        if o1 is not None and o1["load"] == "ok":
            rec["desc1ok"] = o1["describe"]["ok"]
            rec["desc1"] = o1["describe"]["v"] if o1["describe"]["ok"] else o1["describe"]["msg"]
            rec["desc1n"] = norm_text(rec["desc1"])
            rec["decls"] = DECL.findall(rec["desc1"]) if o1["describe"]["ok"] else []
            rec["optixnamed"] = bool(o1["describe"]["ok"]) and optional_index_next_to_named(rec["desc1"])
            rec["vec1"] = vec(o1)
            rec["h1"] = o1["h256"]["v"]
            c2 = c.get("_comp2")
            if c2 is not None:
                rec["outcome2"] = c2["outcome"]
                o2 = obs2.get(i)
                if c2["outcome"] == "code" and o2 is not None:
                    if o2["load"] != "ok":
                        rec["outcome2"] = "load-failed"
                    else:
                        rec["vec2"] = vec(o2)
                        rec["h2"] = o2["h256"]["v"]
                        rec["desc2"] = o2["describe"]["v"] if o2["describe"]["ok"] else "threw:" + o2["describe"]["msg"]
                        rec["desc2n"] = norm_text(rec["desc2"])
        recs.append(rec)
    open_k = vlib.open_findings("C15")
    dev_to_k = {k["deviation"]: k for k in open_k if k.get("deviation")}
    judged, consumed, tstates = judge(recs, tag, set(dev_to_k))
    # negative control
    import copy
    good = next(r for r in recs if r["outcome2"] == "code")
    bad = copy.deepcopy(good)
    bad["h2"] = "0" * 64
    jd, _, _ = judge([bad], tag + "-neg", set(dev_to_k))
    if not any(j["kind"] == "described-hash256-differs" for j in jd):
        raise ToolError("binding self-test failed: corrupted generation-2 digest accepted")
    violations, known_hits = [], []
    for j in judged:
        r = recs[j["line_global"]]
        c = cases[r["id"]]
        if j["class"] in dev_to_k:
            known_hits.append((dev_to_k[j["class"]]["id"], dev_to_k[j["class"]]["what"]))
            continue
        payload = {"property": prop, "complaint": j["kind"], "program": c["_src"], "describe_text": r["desc1"],
                   "generation2_compile": {k: v for k, v in c.get("_comp2", {}).items() if k != "code"},
                   "generation2_describe": r["desc2"], "hash256": [r["h1"], r["h2"]], "vectors": [r["vec1"], r["vec2"]]}
        path = vlib.write_replay(prop, f"{tier}-{len(violations)}", payload)
        violations.append((path, f"{j['kind']}: {c['_src'].strip().splitlines()[-2][:100]}  ==>  {r['desc1'][:140]!r}"))
    n2 = sum(1 for r in recs if r["outcome2"] == "code")
    samples = [{"program": cases[r["id"]]["_src"], "describe": r["desc1"], "generation2": r["outcome2"]} for r in recs[:: max(1, len(recs) // 3)][:3]]
    cov = {"states": gstats["distinct"] + tstates, "transitions": gstats["states"] + consumed, "traces_validated_against_impl": consumed,
           "samples": samples, "programs": len(cases), "families": gstats["families"], "generation2_compiled": n2,
           "known_findings_hit": sorted({k for k, _ in known_hits}), "binding_selftest": "rejected: described-hash256-differs",
           "exhaustive": False, "exhaustively_enumerated_depth": max(dp for _, dp in fams),
           "rule": "every program of each TypeGen family (incl. the describe family: non-identifier keys, shared / recursive names); "
                   "generation 2 = describe() text + buildParsers<{T: CodecT}>"}
    vlib.write_evidence(prop, tier, cov, time.time() - t0, len(violations),
                        ["equality of validators is observed on type-directed probes plus the common pool",
                         "declared names are extracted from the text with a regular expression (type X =)"])
    vlib.finish(prop, violations, known_hits)


def judge(recs, tag, open_devs, shards=6):
    d = os.path.join(vlib.WORK, tag)
    os.makedirs(d, exist_ok=True)
    openf = os.path.join(d, "open.ndjson")
    with open(openf, "w") as f:
        f.write(json.dumps({"devs": sorted(open_devs)}) + "\n")
    shards = max(1, min(shards, len(recs) // 50 + 1))
    import concurrent.futures as cf
    idx = [list(range(s, len(recs), shards)) for s in range(shards)]
    paths = []
    for s in range(shards):
        p = os.path.join(d, f"dtrace{s}.ndjson")
        with open(p, "w") as f:
            for i in idx[s]:
                f.write(json.dumps(recs[i]) + "\n")
        paths.append(p)

    def one(s):
        return vlib.validate_trace(paths[s], os.path.join(vlib.VERIF, "spec/trace/Trace_Describe.tla"),
                                   os.path.join(vlib.VERIF, "spec/trace/Trace_Simple.cfg"), heap="2g", tag=f"{tag}-{s}",
                                   env_extra={"OPEN": openf})

    judged, consumed, states = [], 0, 0
    with cf.ThreadPoolExecutor(max_workers=shards) as ex:
        for s, r in enumerate(ex.map(one, range(shards))):
            cons = vlib.tagged_lines(r["lines"], "CONSUMED")
            if not cons or cons[0]["n"] != len(idx[s]):
                raise ToolError(f"describe trace {s} not consumed: {cons}\n{r['tail']}")
            consumed += cons[0]["n"]
            states += r["distinct"]
            for j in vlib.tagged_lines(r["lines"], "JUDGED"):
                j["line_global"] = idx[s][j["line"] - 1]
                judged.append(j)
    return judged, consumed, states

"""C05: assignability decisions coincide with inclusion of value sets."""
import copy
import json
import os
import random
import time

import vlib
import semlib
from vlib import ToolError, log


def tf(r, key="result"):
    if r is None:
        return "E:none"
    if not r.get("ok"):
        return "E:" + str(r.get("err"))[:120]
    return "T" if r[key] else "F"


def run(prop, tier):
    t0 = time.time()
    vlib.build()
    tag = f"{prop}-{tier}"
    vlib.clear_replays(prop, tier)
    level = 1 if tier == "quick" else 2
    frag, env, pairs, gr = semlib.fragment(tag, level)
    n = len(frag)
    log(f"[C05] fragment of {n} types, {len(pairs)} ordered pairs, TLC {gr['wall']:.0f}s")
    src = semlib.program(frag, env)
    base = {"id": 1, "kind": "sem", "files": [["entry.ts", src]], "names": [f"X{i}" for i in range(1, n + 1)]}
    # the engine memoizes across questions: every pair is asked in two different histories (one engine context per chunk of
    # 4000 questions: the generator's order, and a seeded shuffle of it); both answers are judged
    pairs = sorted(pairs, key=lambda p: (p["ia"], p["ib"]))
    CH = 4000

    def ops_of(order):
        out = []
        for k in order:
            p = pairs[k]
            out.append({"op": "sub", "a": f"X{p['ia']}", "b": f"X{p['ib']}"})
            out.append({"op": "same", "a": f"X{p['ia']}", "b": f"X{p['ib']}"})
        return out
    order1 = list(range(len(pairs)))
    order2 = list(order1)
    random.Random(vlib.seed() + 1).shuffle(order2)
    ops1, ops2 = ops_of(order1), ops_of(order2)
    res = semlib.semtool_ops(base, ops1, chunk=CH)
    res2s = semlib.semtool_ops(base, ops2, chunk=CH)
    pos2 = {k: i for i, k in enumerate(order2)}

    def history(hist, k):
        ops_, i = (ops1, k) if hist == 1 else (ops2, pos2[k])
        lo = (2 * i // CH) * CH
        return [f"{o['op']} {vlib.ts(frag[int(o['a'][1:]) - 1])} <: {vlib.ts(frag[int(o['b'][1:]) - 1])}" for o in ops_[lo:2 * i + 2]]
    # source level: the branch taken by `A extends B ? 1 : 2` for a seeded sample
    rng = random.Random(vlib.seed())
    sample = rng.sample(range(len(pairs)), min(len(pairs), 600 if tier == "quick" else 4000))
    decls = "\n".join(f"type {d['n']} = {vlib.ts(d['ty'])};" for d in env)
    reqs = []
    for k in sample:
        p = pairs[k]
        s = decls + f"\ntype A = {vlib.ts(frag[p['ia'] - 1])};\ntype B = {vlib.ts(frag[p['ib'] - 1])};\ntype T = A extends B ? 1 : 2;\nparse.buildParsers<{{ T: T }}>();\n"
        reqs.append(vlib.compile_req(k, [("entry.ts", s)]))
    comp = vlib.compile_all(reqs)
    jobs = [{"id": r["id"], "code": r["code"], "root": "T", "probes": [{"k": "num", "n": "1"}, {"k": "num", "n": "2"}], "ops": ["validate"]}
            for r in comp if r["outcome"] == "code"]
    obs = vlib.run_driver(jobs, tag)
    srcres = {}
    for r in comp:
        k = r["id"]
        if r["outcome"] != "code":
            srcres[k] = "E:" + r["outcome"] + ":" + json.dumps(r.get("diags", r.get("msg", "")))[:160]
        else:
            o = obs.get(k)
            v = [p["val"] for p in o["probes"]] if o and o["load"] == "ok" else None
            srcres[k] = "T" if v == ["T", "F"] else "F" if v == ["F", "T"] else f"E:validators {v}"
    recs = []
    for k, p in enumerate(pairs):
        recs.append({"ia": p["ia"], "ib": p["ib"], "sub": tf(res[2 * k]), "same": tf(res[2 * k + 1]), "src": srcres.get(k, "none"),
                     "fatal": bool((res[2 * k] or {}).get("fatal") or (res[2 * k + 1] or {}).get("fatal")), "_mc": p["sub"], "_h": 1, "_k": k})
    for k, p in enumerate(pairs):
        i = pos2[k]
        recs.append({"ia": p["ia"], "ib": p["ib"], "sub": tf(res2s[2 * i]), "same": tf(res2s[2 * i + 1]), "src": "none",
                     "fatal": bool((res2s[2 * i] or {}).get("fatal") or (res2s[2 * i + 1] or {}).get("fatal")), "_mc": p["sub"], "_h": 2, "_k": k})
    open_k = vlib.open_findings("C05")
    dev_to_k = {k["deviation"]: k for k in open_k if k.get("deviation")}
    typesf = os.path.join(vlib.WORK, tag, "types.ndjson")
    with open(typesf, "w") as f:
        f.write(json.dumps({"frag": frag, "env": env}) + "\n")
    judged, consumed, tstates = judge(recs, tag, level, set(dev_to_k), typesf)
    # negative control: flip one answer
    bad = copy.deepcopy(recs[0])
    bad["sub"] = "F" if bad["sub"] == "T" else "T"
    jd, _, _ = judge([bad], tag + "-neg", level, set(dev_to_k), typesf)
    if not any(j["kind"] == "assignability-differs-from-inclusion" for j in jd):
        raise ToolError("binding self-test failed: a flipped is_subtype answer was accepted by Trace_Sub")
    violations, known_hits = [], []
    seen = set()
    for j in judged:
        r = recs[j["gline"]]
        if j.get("class") in dev_to_k:
            known_hits.append((dev_to_k[j["class"]]["id"], dev_to_k[j["class"]]["what"]))
            continue
        key = (j["kind"], r["ia"], r["ib"])
        if key in seen:
            continue
        seen.add(key)
        a, b = frag[r["ia"] - 1], frag[r["ib"] - 1]
        payload = {"property": prop, "complaint": j["kind"], "A": vlib.ts(a), "B": vlib.ts(b), "declarations": decls,
                   "inclusion_of_value_sets": j["exp"], "is_subtype": r["sub"], "is_same_type": r["same"], "conditional_type_branch": r["src"],
                   "history_in_the_same_engine_context": history(r["_h"], r["_k"])}
        path = vlib.write_replay(prop, f"{tier}-{len(violations)}", payload)
        violations.append((path, f"{j['kind']}: A = {vlib.ts(a)}  B = {vlib.ts(b)}  expected {j['exp']} sub={r['sub']} same={r['same']} src={r['src']}"))
    cov = {"states": gr["distinct"] + tstates, "transitions": gr["states"] + consumed, "traces_validated_against_impl": consumed,
           "samples": [{"A": vlib.ts(frag[p["ia"] - 1]), "B": vlib.ts(frag[p["ib"] - 1]), "inclusion": p["sub"]} for p in pairs[:: max(1, len(pairs) // 4)][:4]],
           "fragment_types": n, "ordered_pairs": len(pairs), "pairs_where_inclusion_holds": sum(1 for p in pairs if p["sub"]),
           "histories_per_pair": 2, "source_level_sample": len(sample), "pairs_declined_by_engine": sum(1 for r in recs if r["sub"].startswith("E")), "known_findings_hit": sorted({k for k, _ in known_hits}),
           "binding_selftest": "rejected: flipped is_subtype answer", "exhaustive": True,
           "rule": f"SemGen.tla level {level}: every ordered pair of fragment types (leaves, depth-1 constructors over a small leaf set, "
                   "recursive / mutually recursive / uninhabited named types" + ("; plus nested compounds" if level >= 2 else "") + ")"}
    vlib.write_evidence(prop, tier, cov, time.time() - t0, len(violations),
                        ["inclusion is decided over the witness abstraction of SemLevel.tla (mentioned literals + fresh ones, mentioned keys + a "
                         "fresh key, lengths up to max prefix + 1, capped per position); it is exact for the depth-1 fragment",
                         "undefined / void are outside the fragment (as in the property's quantifier)"])
    vlib.finish(prop, violations, known_hits)


def judge(recs, tag, level, open_devs, typesf, shards=12):
    d = os.path.join(vlib.WORK, tag)
    os.makedirs(d, exist_ok=True)
    openf = os.path.join(d, "open.ndjson")
    with open(openf, "w") as f:
        f.write(json.dumps({"devs": sorted(open_devs)}) + "\n")
    cfgp = os.path.join(d, "Trace_Sub.cfg")
    vlib.write_cfg(cfgp, spec="TraceSpec", invariants=["Report"], postcondition="Accepted")
    shards = max(1, min(shards, len(recs) // 200 + 1))
    idx = [list(range(s, len(recs), shards)) for s in range(shards)]
    import concurrent.futures as cf
    paths = []
    for s in range(shards):
        p = os.path.join(d, f"strace{s}.ndjson")
        with open(p, "w") as f:
            for i in idx[s]:
                f.write(json.dumps({k: v for k, v in recs[i].items() if not k.startswith("_")}) + "\n")
        paths.append(p)

    def one(s):
        return vlib.validate_trace(paths[s], os.path.join(vlib.VERIF, "spec/trace/Trace_Sub.tla"), cfgp, heap="3g", tag=f"{tag}-{s}",
                                   env_extra={"OPEN": openf, "TYPES": typesf}, timeout=3400)

    judged, consumed, states = [], 0, 0
    with cf.ThreadPoolExecutor(max_workers=shards) as ex:
        for s, r in enumerate(ex.map(one, range(shards))):
            cons = vlib.tagged_lines(r["lines"], "CONSUMED")
            if not cons or cons[0]["n"] != len(idx[s]):
                raise ToolError(f"C05 trace {s} not consumed: {cons}\n{r['tail']}")
            consumed += cons[0]["n"]
            states += r["distinct"]
            for j in vlib.tagged_lines(r["lines"], "JUDGED"):
                j["gline"] = idx[s][j["line"] - 1]
                judged.append(j)
    return judged, consumed, states

"""Level (A): the client runtime as implemented, against spec/algo/Runtime.tla.

design  MC_HashEnc.tla - TLC checks on the model alone that the hash256 token stream is injective up to the order of what it sorts,
        transparent for non-recursive aliases, and invariant under renaming / reordering of recursive declarations.
binding Trace_Runtime.tla - for every parser of the run: the validator tree reflected from the live objects, the calls its hash256()
        made on the writer, and its validate() outcomes on the common pool must be what the model computes for that tree.
A line the model does not explain is DRIFT, not a violation: the property-level trace specs decide about the property."""
import copy
import json
import os

import vlib
from vlib import ToolError, log


def design(tag):
    r = vlib.run_tlc(os.path.join(vlib.VERIF, "spec/mc/MC_HashEnc.cfg"), os.path.join(vlib.VERIF, "spec/mc/MC_HashEnc.tla"),
                     workers=12, heap="6g", tag=tag + "-henc", timeout=1800)
    if r["violated"] or not r["ok"]:
        raise ToolError("MC_HashEnc: the hash256 encoding model fails its design invariants:\n" + r["tail"])
    return {"hashenc_model_trees": r["distinct"], "hashenc_invariants": ["Injective", "OrderInvariant", "AliasTransparent", "AlphaInvariant"]}


def _probe_keys(t, out):
    k = t.get("k")
    if k == "obj":
        for p in t["ps"]:
            out.add(p["key"])
            _probe_keys(p["v"], out)
    elif k in ("arr", "set"):
        for e in t["es"]:
            _probe_keys(e, out)
    elif k == "map":
        for e in t["es"]:
            _probe_keys(e["mk"], out)
            _probe_keys(e["mv"], out)


def js_sorted(keys):
    """Array.prototype.sort without comparator: by UTF-16 code units"""
    return sorted(keys, key=lambda s: s.encode("utf-16-be", "surrogatepass"))


def records(cases, obs, with_parse=False):
    recs = []
    for i, c in enumerate(cases):
        o = obs.get(i)
        if o is None or o.get("load") != "ok" or "rt" not in o:
            continue
        rt = o["rt"]
        if "error" in rt:
            recs.append({"ev": "rt", "id": i, "tree": {"c": "unknown", "name": rt["error"]}, "named": [], "korder": [], "corder": [],
                         "toks": [], "hmsg": "reflect failed", "obs": []})
            continue
        keys = set(rt["korder"])
        obsl = []
        for p in o["probes"]:
            ob = {"v": p["v"], "val": p.get("val", "E"), "vals": p.get("vals", "E")}
            if with_parse and "sp" in p:
                # validate outcomes of the parse battery; the parsed data per option set
                ob["val"] = next((s["val"] for s in p["sp"] if s["opt"] == "dd"), "E")
                ob["vals"] = next((s["val"] for s in p["sp"] if s["opt"] == "sd"), "E")
                ob["sp"] = [{"opt": s["opt"], "ok": s["ok"], "data": s["data"]} for s in p["sp"]]
                _probe_keys(p["v"], keys)
            obsl.append(ob)
        recs.append({"ev": "rt", "id": i, "tree": rt["tree"], "named": rt["named"], "korder": js_sorted(keys), "corder": rt["corder"],
                     "toks": rt["toks"], "hmsg": rt["hmsg"], "obs": obsl})
    return recs


def judge(recs, tag, shards=8):
    d = os.path.join(vlib.WORK, tag)
    os.makedirs(d, exist_ok=True)
    shards = max(1, min(shards, len(recs) // 40 + 1))
    parts = [recs[s::shards] for s in range(shards)]
    paths = []
    for s, part in enumerate(parts):
        p = os.path.join(d, f"rttrace{s}.ndjson")
        with open(p, "w") as f:
            for r in part:
                f.write(json.dumps(r) + "\n")
        paths.append(p)
    import concurrent.futures as cf

    def one(s):
        return vlib.validate_trace(paths[s], os.path.join(vlib.VERIF, "spec/trace/Trace_Runtime.tla"),
                                   os.path.join(vlib.VERIF, "spec/trace/Trace_Simple.cfg"), heap="3g", tag=f"{tag}-rt{s}")

    judged, consumed, states = [], 0, 0
    with cf.ThreadPoolExecutor(max_workers=shards) as ex:
        for s, r in enumerate(ex.map(one, range(shards))):
            cons = vlib.tagged_lines(r["lines"], "CONSUMED")
            if not cons or cons[0]["n"] != len(parts[s]):
                raise ToolError(f"runtime trace shard {s} not consumed ({cons}):\n{r['tail']}")
            consumed += cons[0]["n"]
            states += r["distinct"]
            for j in vlib.tagged_lines(r["lines"], "JUDGED"):
                j["_rec"] = parts[s][j["line"] - 1]
                judged.append(j)
    return judged, consumed, states


def _parse_control(recs, tag):
    """an undeclared key added to explained parsed data must be reported"""
    for r in recs:
        for i, ob in enumerate(r["obs"]):
            for j, sp in enumerate(ob.get("sp", [])):
                if sp["ok"] == "T" and sp["data"]["k"] == "obj" and sp["data"].get("c") == "plain":
                    one = dict(r, obs=[copy.deepcopy(ob)])
                    if judge([one], tag + "-negp0", shards=1)[0]:
                        continue
                    one["obs"][0]["sp"][j]["data"]["ps"].append({"key": "__injected__", "v": {"k": "num", "n": "1"}})
                    jd, _, _ = judge([one], tag + "-negp", shards=1)
                    if any(x["what"].startswith("parse-") for x in jd):
                        return f"; injected key in the parsed data of program {r['id']}"
                    raise ToolError("binding self-test failed: Trace_Runtime accepted corrupted parsed data")
    raise ToolError("binding self-test impossible: no explained parse result that is a plain object")


def negative_control(recs, tag, with_parse=False):
    """drop one token of an explained stream, flip one explained verdict: Trace_Runtime must report both"""
    for r in recs:
        flips = [i for i, ob in enumerate(r["obs"]) if ob["val"] in ("T", "F")]
        if len(r["toks"]) > 3 and flips:
            a = copy.deepcopy(r)
            del a["toks"][2]
            a["obs"] = []
            b = copy.deepcopy(r)
            b["obs"] = [copy.deepcopy(r["obs"][flips[0]])]
            j0, _, _ = judge([dict(r, obs=b["obs"])], tag + "-neg0", shards=1)
            if j0:
                continue            # (a contested / drifting line is no basis for the control)
            b["obs"][0]["val"] = "F" if b["obs"][0]["val"] == "T" else "T"
            ja, _, _ = judge([a, b], tag + "-neg", shards=1)
            kinds = {j["what"] for j in ja}
            if "hash256-stream" in kinds and "validate-default" in kinds:
                extra = ""
                if with_parse:
                    extra = _parse_control(recs, tag)
                return f"rejected: dropped token and flipped verdict of program {r['id']}" + extra
            raise ToolError(f"binding self-test failed: Trace_Runtime accepted a corrupted line ({kinds})")
    raise ToolError("binding self-test impossible: no explained line with tokens and verdicts")


def stage(cases, obs, tag, with_parse=False):
    """returns (coverage dict, drift list)"""
    recs = records(cases, obs, with_parse)
    judged, consumed, states = judge(recs, tag)
    neg = negative_control(recs, tag, with_parse)
    drift = []
    for j in judged:
        r = j["_rec"]
        drift.append({"program": cases[r["id"]].get("_src", ""), "what": j["what"], "probe": j["probe"], "observed": j["obs"], "model": j["exp"],
                      "value": r["obs"][j["probe"] - 1]["v"] if j["what"].startswith("validate") and 0 < j["probe"] <= len(r["obs"]) else None})
    nval = sum(len(r["obs"]) for r in recs)
    ntok = sum(len(r["toks"]) for r in recs)
    classes = sorted({c for r in recs for c in _classes(r["tree"])} | {c for r in recs for e in r["named"] for c in _classes(e["rt"])})
    cov = {"runtime_model_parsers": len(recs), "runtime_model_validate_outcomes": 2 * nval, "runtime_model_hash_tokens": ntok,
           "runtime_model_classes_seen": classes, "runtime_model_parse_results": sum(len(ob.get("sp", [])) for r in recs for ob in r["obs"]), "runtime_model_drift": len(drift), "runtime_model_trace_states": states,
           "runtime_model_binding_selftest": neg}
    log(f"[runtime model] {len(recs)} parsers, {2 * nval} validate outcomes, {ntok} tokens, drift {len(drift)}")
    return cov, drift, consumed


def _classes(t):
    out = {t["c"]}
    for k in ("prefix", "rest", "ms"):
        for x in t.get(k, []):
            out |= _classes(x)
    for k in ("e", "kt", "vt", "t"):
        if isinstance(t.get(k), dict):
            out |= _classes(t[k])
    for p in t.get("ps", []) + t.get("mapping", []):
        out |= _classes(p["rt"])
    for p in t.get("ix", []):
        out |= _classes(p["kt"]) | _classes(p["vt"])
    return out

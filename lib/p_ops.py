"""C06: type-level union, intersection, difference, complement are exact set operations.

Decision-diagram layer: Bdd.tla (transcription of bdd.rs / dnf.rs) model-checked for 2 atoms exhaustively (3 and 4 atoms by
seeded simulation; thorough: 3 atoms exhaustively); every state is replayed on the real BddOps through semtool and Trace_Bdd.tla
evaluates the real results under every truth assignment.
Semantic-type layer: pairs of fragment types; the engine's results are dumped (ComplexSemType + atom tables) and Trace_Ops.tla
evaluates the independent membership function SemDump!DMem over a universe of values."""
import copy
import json
import os
import random
import time

import vlib
import semlib
from vlib import ToolError, log


def bdd_part(tier, tag):
    d = os.path.join(vlib.WORK, tag)
    os.makedirs(d, exist_ok=True)
    trans = []
    states = distinct = 0
    runs = [("b2", 2, 0, None)]
    if tier == "quick":
        runs += [("b3s", 3, 0, 3000), ("b4s", 4, 12, 3000)]
    else:
        runs += [("b3", 3, 0, None), ("b3s", 3, 0, 20000), ("b4s", 4, 14, 20000)]
    infos = {}
    for name, natoms, maxnodes, sim in runs:
        cfg = os.path.join(d, f"{name}.cfg")
        emit = not (name == "b3")          # the exhaustive 3-atom run checks the design only (7M states are not emitted)
        vlib.write_cfg(cfg, spec="BSpec", constants={"NAtoms": natoms, "MaxNodes": maxnodes},
                       invariants=["OpsAreBoolean", "NormalFormsPreserveMeaning", "WellOrdered"] + (["EmitInv"] if emit else []),
                       constraint="SizeConstraint" if maxnodes else None)
        extra = ["-simulate", f"num={sim // 40}", "-depth", "40", "-seed", str(vlib.seed())] if sim else []
        r = vlib.run_tlc(cfg, os.path.join(vlib.VERIF, "spec/mc/MC_Bdd.tla"), workers=1 if sim else 14, heap="12g", tag=name,
                         extra=extra, timeout=3400)
        if r["violated"] or (not sim and not r["ok"]):
            raise ToolError(f"Bdd.tla ({name}): the transcription violates its invariant:\n" + r["tail"])
        t = vlib.tagged_lines(r["lines"], "TRANS")
        infos[name] = {"atoms": natoms, "states": r["distinct"], "emitted": len(t), "simulated": bool(sim)}
        states += r["states"]
        distinct += r["distinct"]
        trans += t
    # dedupe
    seen, uniq = set(), []
    for t in trans:
        k = json.dumps([t["x"], t["y"]], sort_keys=True)
        if k not in seen:
            seen.add(k)
            uniq.append(t)
    log(f"[bdd] {len(uniq)} distinct (x, y) states to replay ({infos})")
    # replay on the real BddOps
    chunks = [uniq[k::12] for k in range(12)]
    import concurrent.futures as cf

    def rep(ch):
        if not ch:
            return []
        r = semlib.semtool({"id": 1, "kind": "bdd", "cases": [{"x": t["x"], "y": t["y"]} for t in ch]}, timeout=600)
        if "results" not in r:
            raise ToolError(f"semtool bdd replay failed: {r}")
        return r["results"]

    with cf.ThreadPoolExecutor(max_workers=12) as ex:
        reps = list(ex.map(rep, chunks))
    traces = []
    for ch, rs in zip(chunks, reps):
        traces.append([{"x": t["x"], "y": t["y"], "impl": r} for t, r in zip(ch, rs)])
    cfgt = os.path.join(d, "Trace_Bdd.cfg")
    vlib.write_cfg(cfgt, spec="TraceSpec", constants={"NAtoms": 4, "MaxNodes": 0}, invariants=["Report"], postcondition="Accepted")
    paths = []
    for k, tr in enumerate(traces):
        p = os.path.join(d, f"btrace{k}.ndjson")
        with open(p, "w") as f:
            for e in tr:
                f.write(json.dumps(e) + "\n")
        paths.append(p)

    def one(k):
        return vlib.validate_trace(paths[k], os.path.join(vlib.VERIF, "spec/trace/Trace_Bdd.tla"), cfgt, heap="3g", tag=f"{tag}-b{k}", timeout=3400)

    violations, consumed, tstates, drift = [], 0, 0, 0
    with cf.ThreadPoolExecutor(max_workers=12) as ex:
        for k, tr in enumerate(ex.map(one, range(len(traces)))):
            if not traces[k]:
                continue
            cons = vlib.tagged_lines(tr["lines"], "CONSUMED")
            if not cons or cons[0]["n"] != len(traces[k]):
                raise ToolError(f"bdd trace {k} not consumed: {cons}\n{tr['tail']}")
            consumed += cons[0]["n"]
            tstates += tr["distinct"]
            for j in vlib.tagged_lines(tr["lines"], "JUDGED"):
                if j["kind"] == "drift":
                    drift += 1
                    continue
                e = traces[k][j["line"] - 1]
                payload = {"property": "C06", "layer": "bdd", "complaint": j["kind"], "x": e["x"], "y": e["y"], "real_results": e["impl"]}
                if len(violations) < 20:
                    violations.append((vlib.write_replay("C06", f"{tier}-b{len(violations)}", payload), f"bdd: {j['kind']} x={json.dumps(e['x'])[:120]}"))
    # negative control
    bad = copy.deepcopy(traces[0][:3])
    bad[1]["impl"]["u"] = {"t": "F"} if bad[1]["impl"]["u"] != {"t": "F"} else {"t": "T"}
    pn = os.path.join(d, "bneg.ndjson")
    with open(pn, "w") as f:
        for e in bad:
            f.write(json.dumps(e) + "\n")
    tn = vlib.validate_trace(pn, os.path.join(vlib.VERIF, "spec/trace/Trace_Bdd.tla"), cfgt, heap="2g", tag=f"{tag}-bneg")
    if not any(j["kind"] == "union-is-not-or" for j in vlib.tagged_lines(tn["lines"], "JUDGED")):
        raise ToolError("binding self-test failed: corrupted union result accepted by Trace_Bdd")
    cov = {"bdd_runs": infos, "bdd_states_replayed": len(uniq), "bdd_spec_drift_states": drift,
           "bdd_binding_selftest": "rejected: union-is-not-or"}
    return violations, cov, distinct + tstates, states + consumed, consumed


def sem_part(tier, tag):
    level = 1 if tier == "quick" else 2
    frag, env, _, gr = semlib.fragment(tag + "-frag", level, want_pairs=False)
    n = len(frag)
    rng = random.Random(vlib.seed())
    allpairs = [(a, b) for a in range(1, n + 1) for b in range(1, n + 1)]
    pairs = rng.sample(allpairs, min(len(allpairs), 1200 if tier == "quick" else 8000))
    # every type against itself: with its own complement a decision diagram saturates (X | not X) or empties (X & not X)
    pairs = [(a, a) for a in range(1, n + 1)] + [pq for pq in pairs if pq[0] != pq[1]]
    src = semlib.program(frag, env)
    nsh = 12
    d = os.path.join(vlib.WORK, tag)
    os.makedirs(d, exist_ok=True)
    typesf = os.path.join(d, "types.ndjson")
    with open(typesf, "w") as f:
        f.write(json.dumps({"frag": frag, "env": env}) + "\n")
    traces = []

    # third operands of chains: the scalar leaves and a few compounds
    leafish = [i for i, t in enumerate(frag, 1) if t.get("t") in ("lit", "prim")]
    thirds = leafish + [i for i, t in enumerate(frag, 1) if t.get("t") in ("obj", "tuple")][:6]

    def batch(k):
        mine = pairs[k::nsh]
        ops, dump = [], set()

        def four(x, y, sfx):
            ops.extend([{"op": "union", "a": x, "b": y, "as": f"U{sfx}"}, {"op": "intersect", "a": x, "b": y, "as": f"I{sfx}"},
                        {"op": "diff", "a": x, "b": y, "as": f"D{sfx}"}, {"op": "complement", "a": x, "as": f"C{sfx}"}])
            dump.update({x, y, f"U{sfx}", f"I{sfx}", f"D{sfx}", f"C{sfx}"})

        for j, (a, b) in enumerate(mine):
            four(f"X{a}", f"X{b}", f"{j}")
            # derived operands: results of the engine's own operations (complements) are operands again, so that every
            # polarity of the literal lists (allowed / excluded) meets every other
            ops.append({"op": "complement", "a": f"X{b}", "as": f"N{j}"})
            four(f"X{a}", f"N{j}", f"{j}p")
            four(f"C{j}", f"X{b}", f"{j}q")
            four(f"C{j}", f"N{j}", f"{j}r")
            # chains: the engine's own union / intersection / difference of (A, B) is an operand again, against a third type
            # (a representation that reads correctly but is not normal shows in the NEXT operation)
            c = thirds[j % len(thirds)]
            four(f"U{j}", f"X{c}", f"{j}s")
            four(f"I{j}", f"X{c}", f"{j}t")
            four(f"D{j}", f"X{c}", f"{j}v")
        r = semlib.semtool({"id": k, "kind": "sem", "files": [["entry.ts", src]], "names": [f"X{i}" for i in range(1, n + 1)],
                            "ops": ops, "dump": sorted(dump), "materialize": []}, timeout=900)
        if r.get("outcome") != "ok":
            raise ToolError(f"semtool failed on the C06 batch: {str(r)[:400]}")
        okof = {o["as"]: res["ok"] for o, res in zip(ops, r["results"])}
        lines = [{"ev": "atoms", "atoms": r["atoms"]}]
        for j, (a, b) in enumerate(mine):
            if f"X{a}" not in r["dumps"] or f"X{b}" not in r["dumps"]:
                continue          # the engine declines to convert this operand (recursive alias over a union)

            def res(name):
                ok = okof.get(name, False) and name in r["dumps"]
                return {"ok": ok, "st": r["dumps"].get(name, {"all": [], "sub": []})}

            def line(x, y, sfx, der):
                return {"ev": "pair", "ia": a, "ib": b, "der": der, "a": r["dumps"][x], "b": r["dumps"][y],
                        "u": res(f"U{sfx}"), "i": res(f"I{sfx}"), "d": res(f"D{sfx}"), "c": res(f"C{sfx}")}
            lines.append(line(f"X{a}", f"X{b}", f"{j}", "A,B"))
            if okof.get(f"N{j}") and okof.get(f"C{j}") and f"N{j}" in r["dumps"] and f"C{j}" in r["dumps"]:
                lines.append(line(f"X{a}", f"N{j}", f"{j}p", "A,not B"))
                lines.append(line(f"C{j}", f"X{b}", f"{j}q", "not A,B"))
                lines.append(line(f"C{j}", f"N{j}", f"{j}r", "not A,not B"))
            c = thirds[j % len(thirds)]
            for x, sfx, what in ((f"U{j}", f"{j}s", "A|B"), (f"I{j}", f"{j}t", "A&B"), (f"D{j}", f"{j}v", "A\\B")):
                if okof.get(x) and x in r["dumps"] and f"X{c}" in r["dumps"]:
                    ln = line(x, f"X{c}", sfx, f"({what}),C")
                    ln["ic"] = c
                    lines.append(ln)
        return lines

    # scalar chains, exhaustively: every (A, B) of scalar types (literals, basic types and their unions) and every scalar leaf C:
    # (A | B) against C.  The per-tag representation of scalars has the most special cases and the smallest universe.
    def scalar(t):
        return t.get("t") in ("lit", "prim") or (t.get("t") in ("union", "inter") and all(scalar(m) for m in t["ms"]))
    sc = [i for i, t in enumerate(frag, 1) if scalar(t)]
    leaves = [i for i in sc if frag[i - 1].get("t") in ("lit", "prim")]
    triples = [(a, b, c) for a in sc for b in sc for c in leaves]
    if tier == "quick":
        triples = [t for k, t in enumerate(triples) if k % 3 == vlib.seed() % 3]

    def chain_batch(k):
        mine = triples[k::nsh]
        ops, dump = [], set()
        for j, (a, b, c) in enumerate(mine):
            ops.append({"op": "union", "a": f"X{a}", "b": f"X{b}", "as": f"W{j}"})
            ops += [{"op": "union", "a": f"W{j}", "b": f"X{c}", "as": f"U{j}"}, {"op": "intersect", "a": f"W{j}", "b": f"X{c}", "as": f"I{j}"},
                    {"op": "diff", "a": f"W{j}", "b": f"X{c}", "as": f"D{j}"}, {"op": "complement", "a": f"W{j}", "as": f"C{j}"}]
            dump |= {f"W{j}", f"X{c}", f"U{j}", f"I{j}", f"D{j}", f"C{j}"}
        r = semlib.semtool({"id": 100 + k, "kind": "sem", "files": [["entry.ts", src]], "names": [f"X{i}" for i in range(1, n + 1)],
                            "ops": ops, "dump": sorted(dump), "materialize": []}, timeout=900)
        if r.get("outcome") != "ok":
            raise ToolError(f"semtool failed on the C06 scalar chains: {str(r)[:400]}")
        okof = {o["as"]: res["ok"] for o, res in zip(ops, r["results"])}
        lines = [{"ev": "atoms", "atoms": r["atoms"]}]
        for j, (a, b, c) in enumerate(mine):
            if not okof.get(f"W{j}") or f"W{j}" not in r["dumps"] or f"X{c}" not in r["dumps"]:
                continue
            res = lambda nm: {"ok": bool(okof.get(nm)) and nm in r["dumps"], "st": r["dumps"].get(nm, {"all": [], "sub": []})}
            lines.append({"ev": "pair", "ia": a, "ib": b, "ic": c, "der": "(A|B),C", "a": r["dumps"][f"W{j}"], "b": r["dumps"][f"X{c}"],
                          "u": res(f"U{j}"), "i": res(f"I{j}"), "d": res(f"D{j}"), "c": res(f"C{j}")})
        return lines

    import concurrent.futures as cf
    with cf.ThreadPoolExecutor(max_workers=nsh) as ex:
        traces = list(ex.map(batch, range(nsh)))
    with cf.ThreadPoolExecutor(max_workers=nsh) as ex:
        for k, extra in enumerate(ex.map(chain_batch, range(nsh))):
            # same engine context numbering is per batch: chain lines get their own trace (own atom table)
            traces.append(extra)
    cfgt = os.path.join(vlib.VERIF, "spec/trace/Trace_Simple.cfg")
    paths = []
    for k, tr in enumerate(traces):
        p = os.path.join(d, f"otrace{k}.ndjson")
        with open(p, "w") as f:
            for e in tr:
                f.write(json.dumps(e) + "\n")
        paths.append(p)

    def one(k):
        return vlib.validate_trace(paths[k], os.path.join(vlib.VERIF, "spec/trace/Trace_Ops.tla"), cfgt, heap="4g", tag=f"{tag}-o{k}",
                                   env_extra={"TYPES": typesf}, timeout=3400)

    violations, consumed, tstates, npairs = [], 0, 0, 0
    seen = set()
    with cf.ThreadPoolExecutor(max_workers=nsh) as ex:
        for k, tr in enumerate(ex.map(one, range(len(traces)))):
            cons = vlib.tagged_lines(tr["lines"], "CONSUMED")
            if not cons or cons[0]["n"] != len(traces[k]):
                raise ToolError(f"ops trace {k} not consumed: {cons}\n{tr['tail']}")
            consumed += cons[0]["n"]
            npairs += len(traces[k]) - 1
            tstates += tr["distinct"]
            for j in vlib.tagged_lines(tr["lines"], "JUDGED"):
                e = traces[k][j["line"] - 1]
                key = (j["kind"], e["ia"], e["ib"], e["der"])
                if key in seen or len(violations) >= 20:
                    continue
                seen.add(key)
                payload = {"property": "C06", "layer": "semtype", "complaint": j["kind"], "A": vlib.ts(frag[e["ia"] - 1]), "B": vlib.ts(frag[e["ib"] - 1]),
                           "operands": e["der"], "C": vlib.ts(frag[e["ic"] - 1]) if e.get("ic") else None,
                           "declarations": [f"type {x['n']} = {vlib.ts(x['ty'])};" for x in env],
                           "dumps": {x: e[x] for x in ("a", "b", "u", "i", "d", "c")}, "atoms": traces[k][0]["atoms"]}
                violations.append((vlib.write_replay("C06", f"{tier}-s{len(violations)}", payload),
                                   f"semtype: {j['kind']}  operands ({e['der']})  A = {vlib.ts(frag[e['ia'] - 1])}  B = {vlib.ts(frag[e['ib'] - 1])}"))
    # negative control: swap the diff result with the intersection result
    base = next(e for e in traces[0][1:] if e["d"]["st"] != e["i"]["st"])
    bad = copy.deepcopy(base)
    bad["d"], bad["i"] = bad["i"], bad["d"]
    pn = os.path.join(d, "oneg.ndjson")
    with open(pn, "w") as f:
        f.write(json.dumps(traces[0][0]) + "\n" + json.dumps(bad) + "\n")
    tn = vlib.validate_trace(pn, os.path.join(vlib.VERIF, "spec/trace/Trace_Ops.tla"), cfgt, heap="2g", tag=f"{tag}-oneg", env_extra={"TYPES": typesf})
    kinds = {j["kind"] for j in vlib.tagged_lines(tn["lines"], "JUDGED")}
    if not ({"diff-is-not-set-difference", "intersect-is-not-set-intersection"} & kinds):
        raise ToolError(f"binding self-test failed: swapped diff / intersect results accepted by Trace_Ops ({kinds})")
    cov = {"semtype_fragment_types": n, "semtype_pairs_judged": npairs, "semtype_level": level,
           "semtype_binding_selftest": "rejected: " + ", ".join(sorted(kinds))}
    return violations, cov, gr["distinct"] + tstates, gr["states"] + consumed, npairs


def run(prop, tier):
    t0 = time.time()
    vlib.build()
    tag = f"{prop}-{tier}"
    vlib.clear_replays(prop, tier)
    v1, c1, s1, t1, n1 = bdd_part(tier, tag)
    v2, c2, s2, t2, n2 = sem_part(tier, tag)
    cov = {}
    cov.update(c1)
    cov.update(c2)
    cov.update({"states": s1 + s2, "transitions": t1 + t2, "traces_validated_against_impl": n1 + n2,
                "samples": [{"layer": "bdd", "x": {"t": "N", "a": 1, "l": {"t": "T"}, "m": {"t": "F"}, "r": {"t": "F"}}, "ops": "union / intersect / diff / complement / dnf round trip"},
                            {"layer": "semtype", "A": "{ a?: number; }", "B": "Array<1>", "checked": "DMem(v, A op B) = DMem(v, A) op DMem(v, B) for all v"}],
                "exhaustive": False,
                "rule": "bdd: every (x, y) state of Bdd.tla for 2 atoms (3 / 4 atoms sampled; thorough: 3 atoms model-checked exhaustively); "
                        "semtype: seeded sample of ordered pairs of the SemGen fragment x a universe of exact witnesses + extras x both atom readings"})
    vlib.write_evidence(prop, tier, cov, time.time() - t0, len(v1) + len(v2),
                        ["Bdd.tla is my transcription of bdd.rs / dnf.rs; structural differences with equal truth tables are counted as drift",
                         "SemDump.tla reads a mapping atom as: declared keys by type (absent = optionalProp), extra keys by the index signature, "
                         "otherwise allowed (open) or forbidden (exact)"])
    vlib.finish(prop, v1 + v2, [])

"""C04: compilation is total - code or located diagnostics, never a panic or a hang."""
import copy
import json
import os
import time

import vlib
import corpus
import mutate
from vlib import ToolError, log

# the second file is much longer than the entry file, and what is wrong in it comes last: a diagnostic that pairs its byte
# offsets with the entry file's name falls outside that file
EXTRA_FILES = [("m.ts", "export type X = { m: number };\nexport const v = 1;\n"
                + "".join(f"// padding line {i:03d} " + "-" * 60 + "\n" for i in range(70))
                + "export type Rf = { name: string; children: Rf[] };\n"
                + "export enum BadE { Low, High }\n"
                + "export enum CallE { A = String(1) }\n"
                + "export type BadT = { f: symbol; g: () => void };\n"
                + "export interface BadI { m(): void }\n"),
               # cycles of re-exports, a file with two default exports
               ("cyc1.ts", 'export * from "./cyc2";\nexport type Own1 = string;\n'), ("cyc2.ts", 'export * from "./cyc1";\n'),
               ("rc1.ts", 'export { RX } from "./rc2";\n'), ("rc2.ts", 'export { RX } from "./rc1";\n'),
               ("dd.ts", "type DX = string;\nexport default DX;\nexport { DX as default };\nexport type DY = number;\n")]


def grammar(tag, maxdepth, leafset, wrapset, simulate=None):
    d = os.path.join(vlib.WORK, tag)
    os.makedirs(d, exist_ok=True)
    cfg = os.path.join(d, "MC_Grammar.cfg")
    vlib.write_cfg(cfg, spec="GSpec", constants={"MaxDepth": maxdepth, "LeafSet": leafset, "WrapSet": wrapset}, invariants=["EmitInv"])
    extra = []
    if simulate:
        extra = ["-simulate", f"num={simulate}", "-depth", str(maxdepth + 1), "-seed", str(vlib.seed())]
    r = vlib.run_tlc(cfg, os.path.join(vlib.VERIF, "spec/mc/MC_Grammar.tla"), workers=1 if simulate else 8, heap="6g",
                     tag="grammar", extra=extra, timeout=3000)
    if not simulate and not r["ok"]:
        raise ToolError("grammar generation failed:\n" + r["tail"])
    pre = vlib.tagged_lines(r["lines"], "PRELUDE")[0]["text"]
    progs = vlib.tagged_lines(r["lines"], "PROG")
    return pre, progs, r


import re as _re

_ALIAS = _re.compile(r"\btype\s+([A-Za-z_]\w*)\s*(?:<[^=]*>)?\s*=")
_STMT = _re.compile(r"\b(?:export\s+)?(?:type|interface|enum|const|declare|class|parse\.)\b")


def has_alias_cycle(files):
    """Syntactic projection: does the alias graph (X -> alias names mentioned in its right-hand side outside of object
    literal braces and tuple brackets, i.e. at positions that are not guarded by a constructor) have a cycle that a
    requested type reaches?  (Reachability follows every mention, guarded or not; requested = mentioned in a
    parse.buildParsers<..> call, or every alias when there is no such call.)"""
    graph, mentions, requested = {}, {}, set()
    for _, text in files:
        for m in _re.finditer(r"parse\.buildParsers<(.*?)>\(\)", text, _re.S):
            requested.update(_re.findall(r"[A-Za-z_]\w*", m.group(1)))
        for m in _ALIAS.finditer(text):
            nxt = _STMT.search(text, m.end())
            rhs = text[m.end(): nxt.start() if nxt else len(text)]
            mentions.setdefault(m.group(1), set()).update(_re.findall(r"[A-Za-z_]\w*", rhs))
            prev = None
            while prev != rhs:          # strip guarded regions: object literals, tuples, type arguments of data constructors, T[]
                prev = rhs
                rhs = _re.sub(r"\{[^{}]*\}", " ", rhs)
                rhs = _re.sub(r"(^\s*|[|&<,=(:?]\s*)\[[^\[\]]*\]", r"\1 ", rhs)      # a tuple literal, not an indexed access X["k"]
                rhs = _re.sub(r"\b(?:Map|Set|Array|ReadonlyArray|Promise)\s*<[^<>]*>", " ", rhs)
                rhs = _re.sub(r"[A-Za-z_]\w*\s*\[\]", " ", rhs)
            graph.setdefault(m.group(1), set()).update(_re.findall(r"[A-Za-z_]\w*", rhs))
    names = set(graph)
    for n in graph:
        graph[n] &= names
        mentions[n] &= names

    def reach(g, a, seen):
        for b in g.get(a, ()):
            if b in seen:
                continue
            seen.add(b)
            reach(g, b, seen)
        return seen

    roots = (requested & names) or names
    live = set(roots)
    for r in roots:
        live |= reach(mentions, r, set())
    return any(n in reach(graph, n, set()) for n in live)


def line_lengths(text):
    return [len(x) for x in text.split("\n")]


def run(prop, tier):
    t0 = time.time()
    vlib.build()
    tag = f"{prop}-{tier}"
    vlib.clear_replays(prop, tier)
    projects = []       # {origin, files:[(name, text)], cyclic: bool}
    # (i) grammar
    NL, NW = 200, 200
    rng = lambda n: "{" + ",".join(str(i) for i in range(1, n + 1)) + "}"
    pre, progs, gr = grammar(tag, 1, rng(NL), rng(NW))
    states, distinct = gr["states"], gr["distinct"]
    exprs = {p["expr"] for p in progs}
    if tier == "thorough":
        pre, progs2, gr2 = grammar(tag + "-sim", 3, rng(NL), rng(NW), simulate=30000)
        exprs |= {p["expr"] for p in progs2}
        states += gr2["states"]
    for e in sorted(exprs):
        src = pre + "type T = " + e + ";\nparse.buildParsers<{ T: T, Sem1: Sem1 }>();\n"
        projects.append({"origin": "grammar", "expr": e, "files": [("entry.ts", src)] + EXTRA_FILES,
                         "cyclic": False})
    ngram = len(projects)
    # (i') whole projects: every cell of export form x import form x use form, and the special entry files (TsWhole.tla)
    wcfg = os.path.join(vlib.WORK, tag, "MC_Whole.cfg")
    vlib.write_cfg(wcfg, spec="WSpec", invariants=["EmitInv"])
    wr = vlib.run_tlc(wcfg, os.path.join(vlib.VERIF, "spec/mc/MC_Whole.tla"), workers=4, heap="2g", tag="whole")
    if not wr["ok"]:
        raise ToolError("whole-project generation failed:\n" + wr["tail"])
    wholes = vlib.tagged_lines(wr["lines"], "WHOLE")
    if len(wholes) != wr["distinct"]:
        raise ToolError(f"whole-project generation: {len(wholes)} lines for {wr['distinct']} states")
    states += wr["states"]
    distinct += wr["distinct"]
    for w in wholes:
        projects.append({"origin": "whole", "cell": {k: w[k] for k in ("kind", "ex", "im", "us", "sp")},
                         "files": [tuple(f) for f in w["files"]], "cyclic": False})
    nwhole = len(wholes)
    ngram = len(projects)
    # (ii) corpus and its mutations
    corp = corpus.programs()
    for c in corp:
        projects.append({"origin": "corpus", "name": c["name"], "files": list(c["files"]), "cyclic": False})
    d = os.path.join(vlib.WORK, tag)
    cfg = os.path.join(d, "MC_Mutate.cfg")
    maxpos = 2 if tier == "quick" else 6
    vlib.write_cfg(cfg, spec="Spec", constants={"NProgs": len(corp), "MaxPos": maxpos}, invariants=["EmitInv"])
    mr = vlib.run_tlc(cfg, os.path.join(vlib.VERIF, "spec/mc/MC_Mutate.tla"), workers=8, heap="4g", tag="mutate")
    if not mr["ok"]:
        raise ToolError("mutation schedule generation failed:\n" + mr["tail"])
    sched = vlib.tagged_lines(mr["lines"], "MUT")
    states += mr["states"]
    distinct += mr["distinct"]
    seen = set()
    for m in sched:
        c = corp[m["prog"] - 1]
        # mutate the entry file, or for multi-file projects the first non-entry file on odd positions
        fi = 0
        if len(c["files"]) > 1 and m["pos"] % 2 == 1:
            fi = next(i for i, (n, _) in enumerate(c["files"]) if n != "entry.ts")
        else:
            fi = next(i for i, (n, _) in enumerate(c["files"]) if n == "entry.ts")
        new = mutate.apply(m["op"], (m["pos"] + 1) // 2 if len(c["files"]) > 1 else m["pos"], c["files"][fi][1])
        if new is None or new == c["files"][fi][1]:
            continue
        files = list(c["files"])
        files[fi] = (files[fi][0], new)
        key = json.dumps(files)
        if key in seen:
            continue
        seen.add(key)
        projects.append({"origin": "mutation", "name": c["name"], "op": m["op"], "pos": m["pos"], "files": files,
                         "cyclic": False})
    log(f"[C04] {ngram - nwhole} grammar programs, {nwhole} whole projects, {len(corp)} corpus programs, {len(projects) - ngram - len(corp)} mutants")
    for p in projects:
        p["cyclic"] = has_alias_cycle(p["files"])
    reqs = [vlib.compile_req(i, p["files"]) for i, p in enumerate(projects)]
    tc = time.time()
    comp = vlib.compile_all(reqs, timeout=10.0)
    log(f"[compile] {len(reqs)} projects in {time.time() - tc:.1f}s")
    jobs = [{"id": i, "code": r["code"], "root": "__none__", "probes": [], "ops": []} for i, r in enumerate(comp) if r["outcome"] == "code"]
    obs = vlib.run_driver(jobs, tag)
    # does each file parse on its own? (for the 'no location' rule) - ask the compiler with the file as entry
    recs = []
    for i, (p, r) in enumerate(zip(projects, comp)):
        o = obs.get(i)
        rec = {"id": i, "outcome": r["outcome"], "msg": r.get("msg", "") or "", "cyclic": p["cyclic"],
               "files": [{"name": n, "lines": line_lengths(t), "parses": True} for n, t in p["files"]],
               "requested": ["entry.ts"], "diags": r.get("diags", []) if r["outcome"] == "diags" else [],
               "load": "none", "names_ok": False}
        for dgn in rec["diags"]:
            for k in ("line_lo", "col_lo", "line_hi", "col_hi"):
                dgn.setdefault(k, 0)
        if r["outcome"] == "code" and o is not None:
            rec["load"] = "ok" if o["load"] in ("ok", "noroot") else o["load"]
            rec["names_ok"] = set(o.get("names", [])) == set(r.get("names", []))   # a parser for every requested name (a name may be requested twice)
            if rec["load"] != "ok":
                rec["msg"] = o.get("loadmsg", "")
        recs.append(rec)
    # which files fail to parse: a diagnostic without location is acceptable only for those
    unk = sorted({(i, dgn["file"]) for i, rec in enumerate(recs) for dgn in rec["diags"] if dgn["kind"] == "unknown"})
    if unk:
        preqs = []
        for k, (i, fname) in enumerate(unk):
            txt = dict(projects[i]["files"]).get(fname)
            if txt is not None:
                preqs.append((k, vlib.compile_req(k, [("probe.ts", txt)], entry="probe.ts")))
        pres = vlib.compile_all([q for _, q in preqs])
        for (k, _), pr in zip(preqs, pres):
            i, fname = unk[k]
            unparsable = pr["outcome"] == "diags" and any("Cannot find file" in dg.get("message", "") for dg in pr["diags"])
            for f in recs[i]["files"]:
                if f["name"] == fname:
                    f["parses"] = not unparsable
    open_k = vlib.open_findings("C04")
    dev_to_k = {k["deviation"]: k for k in open_k if k.get("deviation")}
    judged, consumed, tstates = judge(recs, tag, set(dev_to_k))
    neg = negative_control(recs, tag, set(dev_to_k))
    violations, known_hits = [], []
    seen = set()
    for j in judged:
        rec = recs[j["gline"]]
        p = projects[rec["id"]]
        if j["class"] in dev_to_k:
            known_hits.append((dev_to_k[j["class"]]["id"], dev_to_k[j["class"]]["what"]))
            continue
        cell = p.get("cell")
        sig = (j["kind"], rec["msg"][:60], p.get("expr", p.get("op")) if cell is None else (cell["sp"], cell["ex"], cell["us"]))
        if sig in seen:
            continue
        seen.add(sig)
        payload = {"property": prop, "complaint": j["kind"], "origin": p["origin"], "files": p["files"],
                   "compile": {k: v for k, v in comp[rec["id"]].items() if k != "code"}, "expr": p.get("expr"),
                   "mutation": {"of": p.get("name"), "op": p.get("op"), "pos": p.get("pos")} if p["origin"] == "mutation" else None}
        path = vlib.write_replay(prop, f"{tier}-{len(violations)}", payload)
        violations.append((path, f"{j['kind']} [{p['origin']} {p.get('expr') or p.get('name') or json.dumps(p.get('cell'))}] {rec['msg'][:120]}"))
    oc = {}
    for r in recs:
        oc[r["outcome"]] = oc.get(r["outcome"], 0) + 1
    cov = {"states": distinct + tstates, "transitions": states + consumed, "traces_validated_against_impl": consumed,
           "samples": [{"expr": projects[0]["expr"], "outcome": recs[0]["outcome"]},
                       {"mutant_of": projects[-1].get("name"), "op": projects[-1].get("op"), "outcome": recs[-1]["outcome"]}],
           "grammar_programs": ngram - nwhole, "whole_projects": nwhole, "corpus_programs": len(corp), "mutants": len(projects) - ngram - len(corp),
           "outcomes": oc, "known_findings_hit": sorted({k for k, _ in known_hits}), "binding_selftest": neg,
           "exhaustive": tier == "quick",
           "rule": "TsGrammar.tla: every leaf x every production (depth 1; thorough: random depth 3); MC_Mutate.tla: every (corpus program, "
                   "operator, position) triple; each project compiled in a child process with a 10 s watchdog"}
    vlib.write_evidence(prop, tier, cov, time.time() - t0, len(violations),
                        ["'promptly' is observed as a 10 s watchdog (typical compile < 5 ms); stack overflow is observed as death of the child",
                         "a file 'parses' iff compiling it alone as entry does not report 'Cannot find file'"])
    vlib.finish(prop, violations, known_hits)


def judge(recs, tag, open_devs, shards=8):
    d = os.path.join(vlib.WORK, tag)
    os.makedirs(d, exist_ok=True)
    openf = os.path.join(d, "open.ndjson")
    with open(openf, "w") as f:
        f.write(json.dumps({"devs": sorted(open_devs)}) + "\n")
    shards = max(1, min(shards, len(recs) // 100 + 1))
    import concurrent.futures as cf
    idx = [list(range(s, len(recs), shards)) for s in range(shards)]
    paths = []
    for s in range(shards):
        p = os.path.join(d, f"ctrace{s}.ndjson")
        with open(p, "w") as f:
            for i in idx[s]:
                f.write(json.dumps(recs[i]) + "\n")
        paths.append(p)

    def one(s):
        return vlib.validate_trace(paths[s], os.path.join(vlib.VERIF, "spec/trace/Trace_Compile.tla"),
                                   os.path.join(vlib.VERIF, "spec/trace/Trace_Simple.cfg"), heap="3g", tag=f"{tag}-{s}",
                                   env_extra={"OPEN": openf})

    judged, consumed, states = [], 0, 0
    with cf.ThreadPoolExecutor(max_workers=shards) as ex:
        for s, r in enumerate(ex.map(one, range(shards))):
            cons = vlib.tagged_lines(r["lines"], "CONSUMED")
            if not cons or cons[0]["n"] != len(idx[s]):
                raise ToolError(f"compile trace {s} not consumed: {cons}\n{r['tail']}")
            consumed += cons[0]["n"]
            states += r["distinct"]
            for j in vlib.tagged_lines(r["lines"], "JUDGED"):
                j["gline"] = idx[s][j["line"] - 1]
                judged.append(j)
    return judged, consumed, states


def negative_control(recs, tag, open_devs):
    good = next(r for r in recs if r["outcome"] == "diags" and r["diags"] and r["diags"][0]["kind"] == "known")
    bad = copy.deepcopy(good)
    bad["diags"][0]["line_hi"] = 100000
    bad2 = copy.deepcopy(good)
    bad2["outcome"] = "panic"
    bad2["msg"] = "injected"
    jd, _, _ = judge([bad, bad2], tag + "-neg", open_devs)
    kinds = {j["kind"] for j in jd}
    if not {"diagnostic-line-range-outside-file", "compile-panic"} <= kinds:
        raise ToolError(f"binding self-test failed: corrupted compile events accepted ({kinds})")
    return "rejected: " + ", ".join(sorted(kinds))

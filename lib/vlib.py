"""Shared orchestration library for the beff verification checks.

Pipeline:  TLC (generate cases with oracle verdicts)  ->  render TypeScript  ->  beffc (compile, child
processes with watchdog)  ->  Node driver (observe)  ->  ndjson trace  ->  TLC (trace spec judges)  ->
known-findings filter  ->  evidence + exit code.
"""
import json
import os
import queue
import re
import shutil
import subprocess
import sys
import threading
import time

VERIF = os.environ.get("VERIF_ROOT", "/verif")
REPO = os.environ.get("REPO_ROOT", "/repo")
WORK = os.path.join(VERIF, ".work")
RT = os.path.join(WORK, "rt")
HARNESS = os.path.join(VERIF, "harness")
BIN = os.path.join(HARNESS, "target", "release")
EVID = os.path.join(VERIF, "evidence")
REPLAY = os.path.join(EVID, "replay")
NCPU = os.cpu_count() or 8


class ToolError(Exception):
    """A failure of the checking machinery itself (exit 2), never a verdict about beff."""


def log(*a):
    print(*a, file=sys.stderr, flush=True)


def seed():
    try:
        return int(os.environ.get("VERIF_SEED", "1"))
    except ValueError:
        return 1


# ------------------------------------------------------------------------------------------ build
_built = False
_missing = {}


def bin_path(name):
    """path of a harness tool; a ToolError when it could not be built against the current tree"""
    if name in _missing:
        raise ToolError(f"the harness tool {name} does not build against this tree:\n" + _missing[name])
    return os.path.join(BIN, name)


def build():
    """Rebuild the harness against /repo's working tree and re-strip the client runtime."""
    global _built
    if _built:
        return
    os.makedirs(WORK, exist_ok=True)
    env = dict(os.environ, CARGO_NET_OFFLINE="true")
    t0 = time.time()
    # a file lock so that concurrent checks do not fight over cargo
    import fcntl
    with open(os.path.join(WORK, "build.lock"), "w") as lk:
        fcntl.flock(lk, fcntl.LOCK_EX)
        r = subprocess.run(["cargo", "build", "--release", "--offline"], cwd=HARNESS, env=env,
                           stdout=subprocess.PIPE, stderr=subprocess.STDOUT, text=True)
        if r.returncode != 0:
            # the four tools use different parts of beff's public Rust API: a change of one part (say, the signature of a function
            # only semtool calls) must not take the checks down that do not need that tool.  Build them one by one and remember
            # which are there; bin_path() raises for a tool that is missing.
            for b in ("tsstrip", "beffc", "semtool", "session"):
                rb = subprocess.run(["cargo", "build", "--release", "--offline", "--bin", b], cwd=HARNESS, env=env,
                                    stdout=subprocess.PIPE, stderr=subprocess.STDOUT, text=True)
                if rb.returncode != 0:
                    _missing[b] = rb.stdout[-3000:]
                    try:
                        os.remove(os.path.join(BIN, b))       # never run a stale binary built from another tree
                    except OSError:
                        pass
            if "tsstrip" in _missing:
                raise ToolError("cargo build of the harness failed:\n" + _missing["tsstrip"])
            log(f"[build] tools that do not build against this tree: {sorted(_missing)}")
        client = os.path.join(RT, "node_modules", "@beff", "client")
        os.makedirs(client, exist_ok=True)
        r = subprocess.run([os.path.join(BIN, "tsstrip"), os.path.join(REPO, "packages/beff-client/src"), client],
                           stdout=subprocess.PIPE, stderr=subprocess.STDOUT, text=True)
        if r.returncode != 0:
            raise ToolError("tsstrip failed:\n" + r.stdout[-4000:])
        with open(os.path.join(client, "package.json"), "w") as f:
            json.dump({"name": "@beff/client", "type": "module",
                       "exports": {"./codegen-v2": "./codegen-v2.js", "./b": "./b.js", "./err": "./err.js",
                                   "./hash": "./hash.js", "./openapi-pp": "./openapi-pp.js"}}, f)
        zod = os.path.join(RT, "node_modules", "zod")
        os.makedirs(zod, exist_ok=True)
        with open(os.path.join(zod, "package.json"), "w") as f:
            json.dump({"name": "zod", "type": "module", "main": "index.js", "exports": {".": "./index.js"}}, f)
        with open(os.path.join(zod, "index.js"), "w") as f:
            f.write("export const z = { custom: (f, m) => ({ _custom: true }) };\n")
        with open(os.path.join(RT, "package.json"), "w") as f:
            json.dump({"type": "module"}, f)
    log(f"[build] harness + client runtime ready in {time.time() - t0:.1f}s")
    _built = True


# ------------------------------------------------------------------------------------------ TLC
TLC_STATS = re.compile(r"(\d+) states generated, (\d+) distinct states found, (\d+) states left on queue")


def run_tlc(cfg, module, workers=8, heap="6g", extra=(), env_extra=None, timeout=3600, java_opts="", tag="tlc"):
    """Run TLC; return dict(out_lines, states, distinct, ok, violated, raw_tail)."""
    meta = os.path.join(WORK, "tlc", f"meta-{tag}-{os.getpid()}-{threading.get_ident()}")
    os.makedirs(meta, exist_ok=True)
    env = dict(os.environ, TLC_META=meta)
    if java_opts:
        env["TLC_JAVA_OPTS"] = java_opts
    if env_extra:
        env.update(env_extra)
    cmd = [os.path.join(VERIF, "bin", "tlcw"), heap, str(workers), cfg, module] + list(extra)
    t0 = time.time()
    try:
        r = subprocess.run(cmd, env=env, stdout=subprocess.PIPE, stderr=subprocess.STDOUT, text=True,
                           timeout=timeout, cwd=os.path.join(WORK, "tlc"))
    except subprocess.TimeoutExpired:
        raise ToolError(f"TLC timed out after {timeout}s on {cfg}")
    finally:
        shutil.rmtree(meta, ignore_errors=True)
    out = r.stdout
    lines = out.split("\n")
    m = None
    for mm in TLC_STATS.finditer(out):
        m = mm
    res = {
        "lines": lines,
        "states": int(m.group(1)) if m else 0,
        "distinct": int(m.group(2)) if m else 0,
        "rc": r.returncode,
        "wall": time.time() - t0,
        "ok": "Model checking completed. No error has been found." in out or "Finished in" in out and r.returncode == 0,
        "violated": "is violated" in out or "Error:" in out,
        "tail": "\n".join(l for l in lines[-60:] if not l.startswith(("Parsing", "Semantic", "Linting")))[-6000:],
    }
    return res


TAGGED = re.compile(r'^<<"([A-Z]+)", (".*")>>$')


def tagged_lines(lines, tag):
    """Extract PrintT(<<"TAG", ToJson(x)>>) payloads."""
    out = []
    for l in lines:
        m = TAGGED.match(l)
        if m and m.group(1) == tag:
            out.append(json.loads(json.loads(m.group(2))))
    return out


def write_cfg(path, spec=None, init=None, next_=None, constants=None, invariants=(), properties=(), constraint=None,
              postcondition=None, view=None, deadlock=False):
    with open(path, "w") as f:
        if spec:
            f.write(f"SPECIFICATION {spec}\n")
        if init:
            f.write(f"INIT {init}\nNEXT {next_}\n")
        if constants:
            f.write("CONSTANTS\n")
            for k, v in constants.items():
                # "<- Op": the constant is replaced by an operator of the model module
                f.write(f"  {k} {v}\n" if str(v).startswith("<-") else f"  {k} = {v}\n")
        for i in invariants:
            f.write(f"INVARIANT {i}\n")
        for p in properties:
            f.write(f"PROPERTY {p}\n")
        if constraint:
            f.write(f"CONSTRAINT {constraint}\n")
        if postcondition:
            f.write(f"POSTCONDITION {postcondition}\n")
        if view:
            f.write(f"VIEW {view}\n")
        f.write(f"CHECK_DEADLOCK {'TRUE' if deadlock else 'FALSE'}\n")


# ------------------------------------------------------------------------------------------ TypeScript rendering
def _lit(v):
    if v["k"] == "str":
        return json.dumps(v["s"])
    if v["k"] == "num":
        return v["n"]
    if v["k"] == "bool":
        return "true" if v["b"] else "false"
    raise ToolError(f"cannot render literal {v}")


def _tpl_text(s):
    return s.replace("\\", "\\\\").replace("`", "\\`").replace("${", "\\${")


def ts(t):
    k = t["t"]
    if k == "prim":
        return "(() => void)" if t["p"] == "function" else t["p"]
    if k == "lit":
        return _lit(t["v"])
    if k == "tpl":
        acc = ""
        for p in t["parts"]:
            pk = p["p"]
            if pk == "str":
                acc += "${string}"
            elif pk == "num":
                acc += "${number}"
            elif pk == "bool":
                acc += "${boolean}"
            elif pk == "lit":
                acc += _tpl_text(p["s"])
            elif pk == "oneof":
                acc += "${" + " | ".join(json.dumps(s) for s in p["ss"]) + "}"
        return "`" + acc + "`"
    if k == "arr":
        return f"Array<{ts(t['e'])}>"
    if k == "tuple":
        parts = [ts(e) for e in t["es"]]
        if t["r"]:
            parts.append(f"...Array<{ts(t['r'][0])}>")
        return "[" + ", ".join(parts) + "]"
    if k == "obj":
        return "{ " + " ".join(_members(t)) + " }" if (t["ps"] or t["ix"]) else "{}"
    if k == "union":
        return "(" + " | ".join(ts(m) for m in t["ms"]) + ")"
    if k == "inter":
        return "(" + " & ".join(ts(m) for m in t["ms"]) + ")"
    if k == "ref":
        if t.get("args"):
            return t["n"] + "<" + ", ".join(ts(a) for a in t["args"]) + ">"
        return t["n"]
    if k == "map":
        return f"Map<{ts(t['kt'])}, {ts(t['vt'])}>"
    if k == "set":
        return f"Set<{ts(t['e'])}>"
    if k == "ta":
        return t["c"]
    if k == "sfmt":
        acc = f'StringFormat<"{t["fs"][0]}">'
        for f in t["fs"][1:]:
            acc = f'StringFormatExtends<{acc}, "{f}">'
        return acc
    if k == "nfmt":
        acc = f'NumberFormat<"{t["fs"][0]}">'
        for f in t["fs"][1:]:
            acc = f'NumberFormatExtends<{acc}, "{f}">'
        return acc
    if k == "app":
        return t["n"] + "<" + ", ".join(ts(a) for a in t["args"]) + ">"
    if k == "deco":
        d = t["d"]
        if d == "parens":
            return "(" + ts(t["a"]) + ")"
        if d == "comment":
            return "/* a comment */ " + ts(t["a"]) + " // trailing\n"
        if d == "jsdoc":
            return ts(t["a"])      # the doc comment itself is printed by _members in front of the key
        if d == "jsdocm":      # a documented member of an intersection / union: the comment stands on its own line before the member
            return "\n/** documented member */\n" + ts(t["a"])
        if d == "labels":       # a labeled tuple: [e0: T0, e1: T1, ...rest: Array<R>]
            a = t["a"]
            if a["t"] != "tuple":
                return ts(a)
            parts = [f"e{i}: {ts(e)}" for i, e in enumerate(a["es"])]
            if a["r"]:
                parts.append(f"...rest: Array<{ts(a['r'][0])}>")
            return "[" + ", ".join(parts) + "]"
        if d == "readonly":
            a = t["a"]
            if a["t"] == "arr":
                return f"ReadonlyArray<{ts(a['e'])}>"
            if a["t"] == "tuple":
                return "readonly " + ts(a)
            return f"Readonly<{ts(a)}>"
        raise ToolError(f"unknown decoration {d}")
    if k == "util":      # utility application: Partial<T>, Pick<T, K>, ...
        return t["u"] + "<" + ", ".join(ts(a) for a in t["args"]) + ">"
    if k == "keyof":
        return f"(keyof {ts(t['a'])})"
    if k == "index":
        return f"{ts(t['a'])}[{ts(t['i'])}]"
    if k == "cond":
        return f"({ts(t['a'])} extends {ts(t['b'])} ? {ts(t['x'])} : {ts(t['y'])})"
    if k == "mapped":
        opt = "+?" if t.get("plus") else "?" if t.get("opt") else ""
        return f"{{ [{t.get('kv', 'K')} in {ts(t['keys'])}]{opt}: {ts(t['v'])} }}"
    if k == "typeof":
        return f"typeof {t['n']}"
    if k == "enumref":
        return t["n"]
    if k == "enummember":
        return f"{t['n']}.{t['m']}"
    if k == "param":
        return t["n"]
    if k == "raw":
        return t["s"]
    raise ToolError(f"cannot render type term {t}")


def _key(s):
    return s if re.fullmatch(r"[A-Za-z_$][A-Za-z0-9_$]*", s) else json.dumps(s)


def _members(t):
    ms = []
    for p in t["ps"]:
        # a documented member starts on its own line (a doc comment after `;` on the same line is not attached to the member)
        doc = "\n/** documented " + p["key"].replace("*/", "") + " */\n" if p["ty"]["t"] == "deco" and p["ty"]["d"] == "jsdoc" else ""
        ms.append(f"{doc}{_key(p['key'])}{'?' if p['opt'] else ''}: {ts(p['ty'])};")
    for ix in t["ix"]:
        ms.append(f"[key: {ts(ix['kt'])}]: {ts(ix['vt'])};")
    return ms


def render_program(env, root, root_name="T", extra_decls=""):
    """TypeScript source of a generated program: declarations + root alias + buildParsers call."""
    out = []
    for d in env:
        params = ("<" + ", ".join(d["params"]) + ">") if d.get("params") else ""
        kind = d.get("kind", "type")
        if kind == "interface":
            ext = (" extends " + ", ".join(ts(e) for e in d["ext"])) if d.get("ext") else ""
            out.append(f"interface {d['n']}{params}{ext} {{ " + " ".join(_members(d["ty"])) + " }")
        elif kind == "enum":
            out.append(f"enum {d['n']} {{ " + ", ".join(
                m["name"] + (" = " + _lit(m["v"]) if m.get("init", True) else "") for m in d["ms"]) + " }")
        elif kind == "const":
            out.append(f"const {d['n']} = {d['expr']};")
        else:
            out.append(f"type {d['n']}{params} = {ts(d['ty'])};")
    if extra_decls:
        out.append(extra_decls)
    out.append(f"type {root_name} = {ts(root)};")
    out.append(f"parse.buildParsers<{{ {root_name}: {root_name} }}>();")
    return "\n".join(out) + "\n"


# ------------------------------------------------------------------------------------------ compile pool
class _Worker:
    def __init__(self):
        self.p = None
        self.q = None

    def start(self):
        self.p = subprocess.Popen([bin_path("beffc")], stdin=subprocess.PIPE, stdout=subprocess.PIPE,
                                  stderr=subprocess.DEVNULL, text=True, bufsize=1)
        self.q = queue.Queue()
        t = threading.Thread(target=self._reader, args=(self.p, self.q), daemon=True)
        t.start()

    @staticmethod
    def _reader(p, q):
        for line in p.stdout:
            q.put(line)
        q.put(None)

    def stop(self):
        if self.p is not None:
            try:
                self.p.kill()
                self.p.wait(timeout=5)
            except Exception:
                pass
            self.p = None

    def request(self, req, timeout):
        if self.p is None or self.p.poll() is not None:
            self.stop()
            self.start()
        try:
            self.p.stdin.write(json.dumps(req) + "\n")
            self.p.stdin.flush()
        except (BrokenPipeError, OSError):
            self.stop()
            return {"id": req["id"], "outcome": "abort", "signal": "write-failed"}
        try:
            line = self.q.get(timeout=timeout)
        except queue.Empty:
            self.stop()
            return {"id": req["id"], "outcome": "timeout", "after_s": timeout}
        if line is None:
            rc = self.p.wait()
            self.stop()
            return {"id": req["id"], "outcome": "abort", "signal": rc}
        return json.loads(line)


def build_req(id_, expr):
    """a parser that is not compiled but built at run time with the client's builder API (b.*, buntyped.Union, createNamedType)"""
    return {"id": id_, "build": expr}


def b_expr(t, env, depth=0):
    """JavaScript expression that builds a parser for the type term t with @beff/client's b API, or None when the API has no
    spelling for it (optional properties, index signatures, tuples, intersections, templates, Map / Set, formats, generics,
    recursion).  N(name, parser) is createNamedType under a name unique to the job (driver.mjs)."""
    k = t["t"]
    if depth > 8:
        return None
    if k == "prim":
        m = {"string": "b.String()", "number": "b.Number()", "boolean": "b.Boolean()", "null": "b.Null()", "undefined": "b.Undefined()",
             "void": "b.Void()", "any": "b.Any()", "unknown": "b.Unknown()", "Date": "b.Date()"}
        return m.get(t["p"])
    if k == "lit":
        v = t["v"]
        if v["k"] == "str":
            return "b.Const(" + json.dumps(v["s"]) + ")"
        if v["k"] == "bool":
            return "b.Const(" + ("true" if v["b"] else "false") + ")"
        if v["k"] == "num" and re.fullmatch(r"-?\d+(\.\d+)?", v["n"]):
            return "b.Const(" + v["n"] + ")"
        return None
    if k == "arr":
        e = b_expr(t["e"], env, depth + 1)
        return None if e is None else f"b.Array({e})"
    if k == "ta":
        return f"b.{t['c']}()"
    if k == "obj":
        if t["ix"] or any(p["opt"] for p in t["ps"]):
            return None
        parts = []
        for p in t["ps"]:
            e = b_expr(p["ty"], env, depth + 1)
            if e is None:
                return None
            parts.append(f"[{json.dumps(p['key'])}]: {e}")
        return "b.Object({ " + ", ".join(parts) + " })"
    if k == "union":
        ms = [b_expr(m, env, depth + 1) for m in t["ms"]]
        return None if any(m is None for m in ms) else "buntyped.Union(" + ", ".join(ms) + ")"
    if k == "deco":
        return b_expr(t["a"], env, depth)
    if k == "ref":
        d = next((d for d in env if d["n"] == t["n"]), None)
        if d is None or d.get("kind", "type") != "type" or d.get("params"):
            return None
        e = b_expr(d["ty"], [x for x in env if x["n"] != t["n"]], depth + 1)     # a recursive alias has no spelling
        return None if e is None else f"N({json.dumps(t['n'])}, {e})"
    return None


def compile_all(reqs, timeout=10.0, nworkers=None):
    if any("build" in r for r in reqs):
        real = [r for r in reqs if "build" not in r]
        done = iter(compile_all(real, timeout, nworkers)) if real else iter(())
        return [{"id": r["id"], "outcome": "code", "code": "", "build": r["build"], "names": ["T"]} if "build" in r else next(done) for r in reqs]
    """Compile every request in a pool of beffc child processes. A hang (watchdog), a crash
    (stack overflow = SIGABRT/SIGSEGV) and a panic are outcomes of the code under test, not tool errors."""
    nworkers = nworkers or min(NCPU, max(1, len(reqs) // 20 + 1))
    results = [None] * len(reqs)
    idx = iter(range(len(reqs)))
    lock = threading.Lock()

    def run():
        w = _Worker()
        try:
            while True:
                with lock:
                    i = next(idx, None)
                if i is None:
                    return
                results[i] = w.request(reqs[i], timeout)
        finally:
            w.stop()

    ts_ = [threading.Thread(target=run) for _ in range(nworkers)]
    for t in ts_:
        t.start()
    for t in ts_:
        t.join()
    # "promptly" must not depend on the load of the machine: a watchdog timeout is confirmed with four times the budget,
    # a few at a time
    slow = [i for i, r in enumerate(results) if r is not None and r.get("outcome") == "timeout"]
    if slow:
        it = iter(slow)

        def confirm():
            w = _Worker()
            try:
                while True:
                    with lock:
                        i = next(it, None)
                    if i is None:
                        return
                    r = w.request(reqs[i], timeout * 4)
                    if r.get("outcome") != "timeout":
                        r["first_attempt"] = f"no answer within {timeout}s under load"
                    results[i] = r
            finally:
                w.stop()
        cs = [threading.Thread(target=confirm) for _ in range(min(4, len(slow)))]
        for t in cs:
            t.start()
        for t in cs:
            t.join()
    return results


def compile_req(id_, files, entry="entry.ts", string_formats=("f1", "f2"), number_formats=("n1", "n2", "f1"),
                register=(), want_ir=False):
    return {"id": id_, "files": [[k, v] for k, v in files], "entry": entry, "register": list(register),
            "settings": {"string_formats": list(string_formats), "number_formats": list(number_formats)},
            "want_ir": want_ir}


# ------------------------------------------------------------------------------------------ node driver
def run_driver(jobs, tag, shards=None, timeout=1800):
    """Run driver jobs (list of dicts) sharded over node processes; returns results by id."""
    d = os.path.join(WORK, tag)
    os.makedirs(d, exist_ok=True)
    shards = shards or min(NCPU, max(1, len(jobs) // 50 + 1))
    procs = []
    for s in range(shards):
        part = jobs[s::shards]
        if not part:
            continue
        jf = os.path.join(d, f"jobs{s}.ndjson")
        of = os.path.join(d, f"obs{s}.ndjson")
        with open(jf, "w") as f:
            for j in part:
                f.write(json.dumps(j) + "\n")
        p = subprocess.Popen(["node", os.path.join(VERIF, "driver", "driver.mjs"), RT, jf, of],
                             stdout=subprocess.PIPE, stderr=subprocess.STDOUT, text=True)
        procs.append((p, of, len(part)))
    res = {}
    for p, of, n in procs:
        try:
            out, _ = p.communicate(timeout=timeout)
        except subprocess.TimeoutExpired:
            p.kill()
            raise ToolError("node driver timed out")
        if p.returncode != 0:
            raise ToolError(f"node driver failed rc={p.returncode}:\n{out[-3000:]}")
        with open(of) as f:
            for line in f:
                r = json.loads(line)
                if "driver_error" in r:
                    raise ToolError("driver error: " + r["driver_error"][:2000])
                res[r["id"]] = r
    return res


# ------------------------------------------------------------------------------------------ trace validation
def validate_trace(trace_path, module, cfg, env_extra=None, heap="6g", timeout=1800, tag="trace"):
    """Run a trace spec over an ndjson trace. Returns (accepted, judged list, tlc result).
    The trace spec prints <<"JUDGED", json>> lines from its postcondition / actions."""
    env = {"TRACE": trace_path}
    if env_extra:
        env.update(env_extra)
    r = run_tlc(cfg, module, workers=1, heap=heap, env_extra=env, timeout=timeout,
                java_opts="-Xss1g -Dtlc2.tool.queue.IStateQueue=StateDeque", tag=tag)
    return r


# ------------------------------------------------------------------------------------------ known findings
def load_known():
    p = os.path.join(VERIF, "known_findings.json")
    if not os.path.exists(p):
        return {"open": [], "fixed": []}
    with open(p) as f:
        return json.load(f)


def open_findings(prop):
    return [k for k in load_known().get("open", []) if k["property"] == prop]


# ------------------------------------------------------------------------------------------ evidence / exit
def clear_replays(prop, tier):
    import glob
    for f in glob.glob(os.path.join(REPLAY, f"{prop}-{tier}-*.json")):
        os.remove(f)


def write_replay(prop, name, payload):
    os.makedirs(REPLAY, exist_ok=True)
    p = os.path.join(REPLAY, f"{prop}-{name}.json")
    with open(p, "w") as f:
        json.dump(payload, f, indent=1)
    return p


def write_evidence(prop, tier, coverage, wall, violations, assumptions, level="model_checking", extra=None):
    os.makedirs(EVID, exist_ok=True)
    ev = {"property_id": prop, "tier": tier, "seed": seed(), "level": level, "coverage": coverage,
          "assumptions": assumptions, "wall_s": round(wall, 2), "violations": violations}
    if extra:
        ev.update(extra)
    # a development run over a subset of the families (VERIF_FAMILIES) does not touch the evidence of the registered check
    dest = os.path.join(WORK, f"devrun-{prop}.json") if os.environ.get("VERIF_FAMILIES") else os.path.join(EVID, f"{prop}.json")
    with open(dest, "w") as f:
        json.dump(ev, f, indent=1)


def finish(prop, violations, known_hits):
    """Print KNOWN-FINDING / VIOLATION lines and exit accordingly.
    violations: list of (replay_path, summary); known_hits: list of (finding_id, text)."""
    seen = set()
    for fid, text in known_hits:
        if fid in seen:
            continue
        seen.add(fid)
        print(f"KNOWN-FINDING: property={prop} {fid} {text}")
    for path, summary in violations[:20]:
        print(f"VIOLATION property={prop} replay={path}")
        log(f"  {summary}")
    sys.stdout.flush()
    sys.exit(1 if violations else 0)


def replay_fallback(mod, prop, path):
    """--replay for checks without a single-case re-execution: show the recorded case (a replay file is self-contained:
    program / history / operands, expected, observed), then re-run the check of the tier that wrote the file on the
    current tree; exit 1 with VIOLATION lines if violations (this one or others) are found again."""
    payload = json.load(open(path))
    print(f"replay file {path} (property {payload.get('property', prop)}):")
    for k, v in payload.items():
        t = json.dumps(v, ensure_ascii=False)
        print(f"  {k}: {t[:400]}{' ...' if len(t) > 400 else ''}")
    tier = "thorough" if "-thorough-" in os.path.basename(path) else "quick"
    print(f"re-running bin/check {prop} --tier {tier} on the current tree")
    sys.stdout.flush()
    mod.run(prop, tier)

"""C03 / C12: validate / safeParse / parse agree, parsed data is a faithful projection; decode errors are
present, bounded and point into the input.  Same generation as C01 (TypeGen families); the driver runs the
four ParseOptions combinations on every probe and Trace_Parse.tla judges every logged call relationally."""
import copy
import json
import os
import time

import vlib
import p_val
import p_runtime
from vlib import ToolError, log

FAMILIES_QUICK = [("prim", 1), ("object", 1), ("tuple", 1), ("union", 1), ("tpl", 1), ("nonjson", 1), ("format", 1), ("disc", 1), ("util", 1), ("twin", 0)]
FAMILIES_THOROUGH = [("prim", 2), ("object", 2), ("tuple", 2), ("union", 2), ("tpl", 2), ("nonjson", 2), ("format", 2), ("disc", 2), ("util", 2), ("twin", 1)]


def build_records(cases):
    recs = []
    for i, c in enumerate(cases):
        r = c["_comp"]
        rec = {"ev": "prog", "id": i, "ty": c.get("nty", c["ty"]), "env": c.get("nenv", c["env"]), "outcome": r["outcome"], "load": "none", "obs": []}
        if r["outcome"] == "code":
            o = c["_obs"]
            rec["load"] = o["load"]
            rec["obs"] = [{"v": p["v"], "sp": p["sp"]} for p in o["probes"]]
        recs.append(rec)
    return recs


def judge(recs, tag, open_devs, shards=12):
    d = os.path.join(vlib.WORK, tag)
    os.makedirs(d, exist_ok=True)
    openf = os.path.join(d, "open.ndjson")
    with open(openf, "w") as f:
        f.write(json.dumps({"devs": sorted(open_devs)}) + "\n")
    shards = max(1, min(shards, len(recs) // 20 + 1))
    import concurrent.futures as cf
    parts = [recs[s::shards] for s in range(shards)]
    paths = []
    for s, part in enumerate(parts):
        p = os.path.join(d, f"ptrace{s}.ndjson")
        with open(p, "w") as f:
            for r in part:
                f.write(json.dumps(r) + "\n")
        paths.append(p)

    def one(s):
        return vlib.validate_trace(paths[s], os.path.join(vlib.VERIF, "spec/trace/Trace_Parse.tla"),
                                   os.path.join(vlib.VERIF, "spec/trace/Trace_Parse.cfg"),
                                   env_extra={"OPEN": openf}, heap="3g", tag=f"{tag}-{s}")

    judged, consumed, states = [], 0, 0
    with cf.ThreadPoolExecutor(max_workers=shards) as ex:
        for s, r in enumerate(ex.map(one, range(shards))):
            cons = vlib.tagged_lines(r["lines"], "CONSUMED")
            if not cons or cons[0]["n"] != cons[0]["of"] or cons[0]["of"] != len(parts[s]):
                raise ToolError(f"trace shard {s} not fully consumed: {cons}\n{r['tail']}")
            consumed += cons[0]["n"]
            states += r["distinct"]
            for j in vlib.tagged_lines(r["lines"], "JUDGED"):
                j["_rec"] = parts[s][j["line"] - 1]
                judged.append(j)
    return judged, consumed, states


def negative_control(recs, tag, open_devs):
    """Corrupt logged fields of an accepted call: the parsed data gets an extra key (C03) and an error path is
    redirected (C12); Trace_Parse must flag both."""
    got03 = got12 = None
    for r in recs:
        if r["outcome"] != "code":
            continue
        for i, ob in enumerate(r["obs"]):
            for j, sp in enumerate(ob["sp"]):
                if got03 is None and sp["ok"] == "T" and sp["data"]["k"] == "obj":
                    bad = copy.deepcopy(r)
                    b = copy.deepcopy(ob)
                    b["sp"][j]["data"]["ps"].append({"key": "__injected__", "v": {"k": "num", "n": "1"}})
                    bad["obs"] = [b]
                    jd, _, _ = judge([bad], tag + "-neg", open_devs, shards=1)
                    if any(x["prop"] == "C03" for x in jd):
                        got03 = f"rejected@program{r['id']}/probe{i + 1}/{sp['opt']}"
                if got12 is None and sp["ok"] == "F" and sp["errs"]:
                    bad = copy.deepcopy(r)
                    b = copy.deepcopy(ob)
                    b["sp"][j]["errs"][0]["received"] = {"k": "str", "s": "__corrupted__"}
                    bad["obs"] = [b]
                    jd, _, _ = judge([bad], tag + "-neg", open_devs, shards=1)
                    if any(x["prop"] == "C12" for x in jd):
                        got12 = f"rejected@program{r['id']}/probe{i + 1}/{sp['opt']}"
                if got03 and got12:
                    return {"C03": got03, "C12": got12}
    raise ToolError(f"binding self-test failed: corrupted trace accepted (C03={got03}, C12={got12})")


def run(prop, tier):
    t0 = time.time()
    vlib.build()
    fams = FAMILIES_QUICK if tier == "quick" else FAMILIES_THOROUGH
    tag = f"{prop}-{tier}"
    vlib.clear_replays(prop, tier)
    cases, gstats = p_val.generate(fams, tag)
    nb = p_val.builders(cases)
    cases += nb
    log(f"[gen] + {len(nb)} parsers built with the b API")
    p_val.observe(cases, tag, ops=("parse", "tree") if prop == "C03" else ("parse",))
    recs = build_records(cases)
    rcov, drift = {}, []
    if prop == "C03":
        # level (A): safeParse results against the runtime model (Runtime!RtParse: projection, deep merge, key order)
        rcov, drift, _ = p_runtime.stage(cases, {i: c["_obs"] for i, c in enumerate(cases) if "_obs" in c}, tag + "-rtm", with_parse=True)
        for k, dr in enumerate(drift[:20]):
            vlib.write_replay(prop, f"{tier}-drift{k}", dict(dr, property=prop, complaint="model-drift (not a violation by itself)"))
            log(f"MODEL-DRIFT {dr['what']} probe={dr['probe']} :: {dr['program'].strip().splitlines()[-2][:120] if dr['program'].strip() else ''}")
    open_k = vlib.open_findings("C03") + vlib.open_findings("C12")
    open_devs = {k["deviation"] for k in open_k if k.get("deviation")}
    judged, consumed, tstates = judge(recs, tag, open_devs)
    neg = negative_control(recs, tag, open_devs)

    dev_to_k = {k["deviation"]: k for k in open_k if k.get("deviation")}
    violations, known_hits = [], []
    seen = set()
    for j in judged:
        if j["prop"] != prop:
            continue
        rec = j["_rec"]
        case = cases[rec["id"]]
        if j["class"] in dev_to_k and dev_to_k[j["class"]]["property"] == prop:
            k = dev_to_k[j["class"]]
            known_hits.append((k["id"], k["what"]))
            continue
        key = (rec["id"], j["probe"], j["kind"])
        if key in seen:
            continue
        seen.add(key)
        ob = rec["obs"][j["probe"] - 1]
        sp = next((s for s in ob["sp"] if s["opt"] == j["opt"]), ob["sp"][0])
        payload = {"property": prop, "program": case["_src"], "type_term": rec["ty"], "env": rec["env"],
                   "value": ob["v"], "options": j["opt"], "complaint": j["kind"], "class": j["class"], "call": sp,
                   "how_to_rerun": f"bin/check {prop} --replay <this file>"}
        path = vlib.write_replay(prop, f"{tier}-{len(violations)}", payload)
        violations.append((path, f"{j['kind']}: {case['_src'].strip().splitlines()[-2]} value={json.dumps(ob['v'])[:200]} opt={j['opt']}"))
    ncalls = sum(len(o["sp"]) for r in recs for o in r["obs"])
    nfail = sum(1 for r in recs for o in r["obs"] for s in o["sp"] if s["ok"] == "F")
    samples = []
    for r in recs[:: max(1, len(recs) // 3)][:3]:
        if r["obs"]:
            o = r["obs"][min(3, len(r["obs"]) - 1)]
            samples.append({"program": cases[r["id"]]["_src"], "value": o["v"],
                            "call": {k: o["sp"][0][k] for k in ("opt", "val", "ok", "data", "nerrs", "pthrown")}})
    cov = {
        "states": gstats["distinct"] + tstates, "transitions": gstats["states"] + consumed,
        "traces_validated_against_impl": consumed, "samples": samples,
        "programs": len(cases), "parsers_built_with_b_api": len(nb), "families": gstats["families"], "calls_judged": ncalls,
        "calls_rejected_by_validator": nfail, "calls_accepted_by_validator": ncalls - nfail,
        "known_findings_hit": sorted({k for k, _ in known_hits}), "binding_selftest": neg, "exhaustive": False, "exhaustively_enumerated_depth": max(dp for _, dp in fams),
        **rcov,
        "rule": "every program of each TypeGen family (TLC breadth-first) x type-directed probes x 4 ParseOptions "
                "combinations; a case is one (program, value, options) call judged by Trace_Parse.tla",
    }
    vlib.write_evidence(prop, tier, cov, time.time() - t0, len(violations),
                        ["relations of Trace_Parse.tla (SubValue, Declared, path resolution) are my reading of the property",
                         "value codec of driver/driver.mjs (round-trip self-tested)",
                         "error path segments are tokenised syntactically by the driver ([n], key(..), value(..), item(..))"])
    vlib.finish(prop, violations, known_hits)

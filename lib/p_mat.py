"""C07: semantically computed types reach code generation unchanged in meaning."""
import copy
import json
import os
import random
import time

import vlib
import semlib
from vlib import ToolError, log

OPS = ["diff", "intersect", "keyof", "index"]


def run(prop, tier):
    t0 = time.time()
    vlib.build()
    tag = f"{prop}-{tier}"
    vlib.clear_replays(prop, tier)
    level = 1 if tier == "quick" else 2
    frag, env, _, gr = semlib.fragment(tag + "-frag", level, want_pairs=False)
    n = len(frag)
    rng = random.Random(vlib.seed())
    allpairs = [(a, b) for a in range(1, n + 1) for b in range(1, n + 1)]
    # stratified: operands of one structural kind interact (two list atoms / two mapping atoms in one conjunction); a uniform
    # sample of all pairs is mostly cross-kind pairs whose intersection is trivially empty
    def kind(t):
        k = t["t"]
        if k in ("arr", "tuple"):
            return "list"
        if k == "obj":
            return "map"
        if k in ("union", "inter"):
            ks = {kind(m) for m in t["ms"]}
            return ks.pop() if len(ks) == 1 else "mixed"
        return "other"
    kinds = [kind(t) for t in frag]
    same = {kd: [(a, b) for (a, b) in allpairs if kinds[a - 1] == kd and kinds[b - 1] == kd] for kd in ("list", "map")}
    cap = {"list": 1200, "map": 600} if tier == "quick" else {"list": 4000, "map": 3000}
    pairs = []
    for kd in ("list", "map"):
        pairs += rng.sample(same[kd], min(len(same[kd]), cap[kd]))
    # every type against itself (intersect = the type itself) and against null (diff = the type itself): the result is the
    # operand, materialised from its decision diagram
    nulls = [i for i, t in enumerate(frag, 1) if t == {"t": "prim", "p": "null"}]
    pairs += [(a, a) for a in range(1, n + 1)] + [(a, nulls[0]) for a in range(1, n + 1) if nulls]
    pairs = list(dict.fromkeys(pairs))
    chosen = set(pairs)
    rest = [p for p in allpairs if p not in chosen]
    pairs += rng.sample(rest, min(len(rest), 900 if tier == "quick" else 5000))
    src = semlib.program(frag, env)
    d = os.path.join(vlib.WORK, tag)
    os.makedirs(d, exist_ok=True)
    typesf = os.path.join(d, "types.ndjson")
    with open(typesf, "w") as f:
        f.write(json.dumps({"frag": frag, "env": env}) + "\n")
    nsh = 12
    declined = [0]

    def batch(k):
        mine = pairs[k::nsh]
        ops, names = [], []
        for j, (a, b) in enumerate(mine):
            for o in OPS:
                nm = f"R{o}{j}"
                if o == "keyof":
                    ops.append({"op": "keyof", "a": f"X{a}", "as": nm})
                else:
                    ops.append({"op": o, "a": f"X{a}", "b": f"X{b}", "as": nm})
                names.append(nm)
        r = semlib.semtool({"id": k, "kind": "sem", "files": [["entry.ts", src]], "names": [f"X{i}" for i in range(1, n + 1)],
                            "ops": ops, "dump": names, "materialize": names}, timeout=900)
        if r.get("outcome") != "ok":
            raise ToolError(f"semtool failed on the C07 batch: {str(r)[:400]}")
        lines = [{"ev": "atoms", "atoms": r["atoms"]}]
        for j, (a, b) in enumerate(mine):
            for oi, o in enumerate(OPS):
                nm = f"R{o}{j}"
                res = r["results"][4 * j + oi]
                if not res["ok"] or nm not in r["dumps"]:
                    continue        # the engine declines (error result): the frontend reports a diagnostic
                m = r["materialized"].get(nm, {})
                if "raw" in m and "clean" not in m and (m.get("clean_error") or "").startswith("recursive type"):
                    declined[0] += 1
                    continue        # remove_nots needs to_sem_type of a helper that is a recursive union: the engine declines (diagnostic)
                ok = "raw" in m and "clean" in m
                lines.append({"ev": "mat", "op": o, "ia": a, "ib": b, "ok": ok, "st": r["dumps"][nm],
                              "raw": m.get("raw", {"t": "prim", "p": "never"}), "clean": m.get("clean", {"t": "prim", "p": "never"}),
                              "tail": m.get("tail", []), "env": m.get("env", []), "roundtrip": m.get("roundtrip_same", "none"),
                              "code": "ok" if "code" in m else (m.get("code_error") or m.get("code_panic") or m.get("clean_error") or m.get("error") or "none"),
                              "_code": m.get("code")})
        return lines

    import concurrent.futures as cf
    with cf.ThreadPoolExecutor(max_workers=nsh) as ex:
        traces = list(ex.map(batch, range(nsh)))
    # the emitted modules must load
    jobs, where = [], {}
    for k, tr in enumerate(traces):
        for i, e in enumerate(tr):
            if e.get("_code"):
                jid = len(jobs)
                where[jid] = (k, i)
                jobs.append({"id": jid, "code": e["_code"], "root": "T", "probes": [], "ops": []})
    obs = vlib.run_driver(jobs, tag)
    for jid, (k, i) in where.items():
        o = obs.get(jid)
        if o is None or o["load"] != "ok":
            traces[k][i]["code"] = "load-failed:" + (o or {}).get("loadmsg", "")
    open_k = vlib.open_findings("C07")
    dev_to_k = {k["deviation"]: k for k in open_k if k.get("deviation")}
    openf = os.path.join(d, "open.ndjson")
    with open(openf, "w") as f:
        f.write(json.dumps({"devs": sorted(dev_to_k)}) + "\n")
    cfgt = os.path.join(vlib.VERIF, "spec/trace/Trace_Simple.cfg")

    def validate(lines, name):
        p = os.path.join(d, name)
        with open(p, "w") as f:
            for e in lines:
                f.write(json.dumps({k: v for k, v in e.items() if not k.startswith("_")}) + "\n")
        return vlib.validate_trace(p, os.path.join(vlib.VERIF, "spec/trace/Trace_Mat.tla"), cfgt, heap="4g", tag=f"{tag}-{name}",
                                   env_extra={"TYPES": typesf, "OPEN": openf}, timeout=3400)

    violations, known_hits, consumed, tstates, nmat = [], [], 0, 0, 0
    seen = set()
    with cf.ThreadPoolExecutor(max_workers=nsh) as ex:
        for k, tr in enumerate(ex.map(lambda k: validate(traces[k], f"mtrace{k}.ndjson"), range(nsh))):
            cons = vlib.tagged_lines(tr["lines"], "CONSUMED")
            if not cons or cons[0]["n"] != len(traces[k]):
                raise ToolError(f"materialisation trace {k} not consumed: {cons}\n{tr['tail']}")
            consumed += cons[0]["n"]
            nmat += len(traces[k]) - 1
            tstates += tr["distinct"]
            for j in vlib.tagged_lines(tr["lines"], "JUDGED"):
                e = traces[k][j["line"] - 1]
                if j["class"] in dev_to_k:
                    known_hits.append((dev_to_k[j["class"]]["id"], dev_to_k[j["class"]]["what"]))
                    continue
                key = (j["kind"], e["op"], e["ia"], e["ib"] if e["op"] != "keyof" else 0)
                if key in seen or len(violations) >= 20:
                    continue
                seen.add(key)
                payload = {"property": prop, "complaint": j["kind"], "operation": e["op"], "A": vlib.ts(frag[e["ia"] - 1]), "B": vlib.ts(frag[e["ib"] - 1]),
                           "declarations": [f"type {x['n']} = {vlib.ts(x['ty'])};" for x in env], "computed_semtype": e["st"],
                           "materialised_raw": e["raw"], "handed_to_codegen": e["clean"], "helpers": e["tail"], "roundtrip_same": e["roundtrip"], "code": e["code"]}
                violations.append((vlib.write_replay(prop, f"{tier}-{len(violations)}", payload),
                                   f"{j['kind']}: {e['op']}(A = {vlib.ts(frag[e['ia'] - 1])}, B = {vlib.ts(frag[e['ib'] - 1])})"))
    # ---- source stage: the same operations written in TypeScript, through the whole real frontend (semtype_to_runtype with its
    # recursion probe, insert_definition, the printer) and run as validators
    sv, scov, sstates, sconsumed = source_stage(tier, tag, frag, env, pairs, typesf, openf)
    violations += sv
    # negative control: hand a different type to code generation
    base = next(e for e in traces[0][1:] if e["ok"] and e["raw"].get("t") != "prim")
    bad = copy.deepcopy(base)
    bad["raw"] = {"t": "prim", "p": "string"}
    bad["clean"] = {"t": "prim", "p": "string"}
    tn = validate([traces[0][0], bad], "mneg.ndjson")
    if not any(j["kind"] == "materialised-type-differs-from-computed-type" for j in vlib.tagged_lines(tn["lines"], "JUDGED")):
        raise ToolError("binding self-test failed: a replaced materialisation was accepted by Trace_Mat")
    cov = {"states": gr["distinct"] + tstates + sstates, "transitions": gr["states"] + consumed + sconsumed, "traces_validated_against_impl": nmat + sconsumed,
           "samples": [{"operation": "diff", "A": "(null | number)", "B": "null", "handed_to_codegen": "number"}],
           "fragment_types": n, "operand_pairs": len(pairs), "materialisations_judged": nmat, "declined_by_engine": declined[0], "operations": OPS,
           "known_findings_hit": sorted({k for k, _ in known_hits}), "source_stage": scov,
           "binding_selftest": "rejected: materialised-type-differs-from-computed-type", "exhaustive": False,
           "rule": "seeded sample of ordered pairs of the SemGen fragment x {diff, intersect, keyof, indexed access}; membership compared over exact "
                   "witnesses of both operands plus fixed extras"}
    vlib.write_evidence(prop, tier, cov, time.time() - t0, len(violations),
                        ["the computed type's meaning is SemDump!DMem (open reading, as a validator is structural) on the engine's dump",
                         "source stage: Exclude<A, B> / NonNullable / keyof A / A[B] compiled by the real frontend; the emitted validators must load, "
                         "never throw, and Exclude must be the set difference of the validators of A and B (default mode, JSON-like probes)"])
    vlib.finish(prop, violations, known_hits)


def source_stage(tier, tag, frag, env, pairs, typesf, openf):
    import p_hash
    rng = random.Random(vlib.seed() + 7)
    n = len(frag)
    sample = rng.sample(pairs, min(len(pairs), 400 if tier == "quick" else 3000))
    decls = "\n".join(f"type {d['n']} = {vlib.ts(d['ty'])};" for d in env)
    progs = []
    for (a, b) in sample:
        A, B = vlib.ts(frag[a - 1]), vlib.ts(frag[b - 1])
        for op, expr in (("exclude", "Exclude<A, B>"), ("keyof", "keyof A"), ("index", "A[B]")):
            progs.append({"op": op, "ia": a, "ib": b, "src": f"{decls}\ntype A = {A};\ntype B = {B};\ntype T = {expr};\nparse.buildParsers<{{ T: T, A: A, B: B }}>();\n"})
    # a second computed type in the same compilation (helper names must stay unique across materialisations), and the
    # operand nested below the root of the computed type (helpers for inner recursion)
    for a in range(1, n + 1):
        A = vlib.ts(frag[a - 1])
        progs.append({"op": "nested", "ia": a, "ib": a, "src": f"{decls}\ntype A = {A};\ntype B = string;\ntype S2 = Exclude<{{ y: L }} | number, number>;\n"
                      f"type T = Exclude<{{ w: A }} | string, string>;\nparse.buildParsers<{{ T: T, A: A, B: B, S2: S2 }}>();\n"})
    for a in range(1, n + 1):
        A = vlib.ts(frag[a - 1])
        progs.append({"op": "nonnull", "ia": a, "ib": a, "src": f"{decls}\ntype A = {A} | null;\ntype B = null;\ntype T = Exclude<A, null>;\nparse.buildParsers<{{ T: T, A: A, B: B }}>();\n"})
        progs.append({"op": "nonnull", "ia": a, "ib": a, "src": f"{decls}\ntype A = {A} | null;\ntype B = null;\ntype T = {{ w: NonNullable<A> }}[\"w\"];\nparse.buildParsers<{{ T: T, A: A, B: B }}>();\n"})
    comp = vlib.compile_all([vlib.compile_req(i, [("entry.ts", p["src"])]) for i, p in enumerate(progs)])

    def jsonlike(v):
        k = v.get("k")
        if k in ("undef", "fn", "big", "date", "map", "set", "ta"):
            return False
        if k == "num" and v.get("n") in ("NaN",):
            return False
        if k == "arr":
            return all(jsonlike(x) for x in v["es"])
        if k == "obj":
            return v.get("c", "plain") == "plain" and all(jsonlike(x["v"]) for x in v["ps"])
        return True
    probes = [v for v in p_hash.pool() if jsonlike(v)]
    jobs = []
    for i, r in enumerate(comp):
        if r["outcome"] == "code":
            for ri, root in enumerate(("T", "A", "B")):
                jobs.append({"id": 3 * i + ri, "code": r["code"], "root": root, "probes": probes, "ops": ["validate"]})
    obs = vlib.run_driver(jobs, tag + "-src")
    lines = []
    for i, (p, r) in enumerate(zip(progs, comp)):
        rec = {"ev": "src", "op": p["op"], "ia": p["ia"], "ib": p["ib"], "outcome": r["outcome"], "load": "none", "vt": "", "va": "", "vb": "", "_src": p["src"],
               "_diag": json.dumps(r.get("diags", r.get("msg", "")))[:300]}
        if r["outcome"] == "code":
            o = [obs.get(3 * i + k) for k in range(3)]
            if any(x is None for x in o):
                rec["load"] = "no-observation"
            elif any(x["load"] != "ok" for x in o):
                rec["load"] = "failed:" + next(x.get("loadmsg", "") for x in o if x["load"] != "ok")[:120]
            else:
                rec["load"] = "ok"
                vec = lambda x: "".join((q["val"] if q["val"] in ("T", "F") else "E") for q in x["probes"])
                rec["vt"], rec["va"], rec["vb"] = vec(o[0]), vec(o[1]), vec(o[2])
        lines.append(rec)
    d = os.path.join(vlib.WORK, tag)
    nsh = 4
    cfgt = os.path.join(vlib.VERIF, "spec/trace/Trace_Simple.cfg")
    violations, consumed, states = [], 0, 0
    seen = set()
    oc = {}
    for r in lines:
        oc[r["outcome"]] = oc.get(r["outcome"], 0) + 1
    for k in range(nsh):
        mine = lines[k::nsh]
        pth = os.path.join(d, f"srctrace{k}.ndjson")
        with open(pth, "w") as f:
            f.write(json.dumps({"ev": "atoms", "atoms": {}}) + "\n")
            for e in mine:
                f.write(json.dumps({kk: v for kk, v in e.items() if not kk.startswith("_")}) + "\n")
        tr = vlib.validate_trace(pth, os.path.join(vlib.VERIF, "spec/trace/Trace_Mat.tla"), cfgt, heap="3g", tag=f"{tag}-src{k}",
                                 env_extra={"TYPES": typesf, "OPEN": openf}, timeout=3400)
        cons = vlib.tagged_lines(tr["lines"], "CONSUMED")
        if not cons or cons[0]["n"] != len(mine) + 1:
            raise ToolError(f"source-stage trace {k} not consumed: {cons}\n{tr['tail']}")
        consumed += len(mine)
        states += tr["distinct"]
        for j in vlib.tagged_lines(tr["lines"], "JUDGED"):
            e = mine[j["line"] - 2]
            key = (j["kind"], e["op"], e["ia"], e["ib"])
            if key in seen or len(violations) >= 20:
                continue
            seen.add(key)
            payload = {"property": "C07", "stage": "source", "complaint": j["kind"], "program": e["_src"], "outcome": e["outcome"], "load": e["load"],
                       "diagnostics": e["_diag"], "probes": probes, "validator_T": e["vt"], "validator_A": e["va"], "validator_B": e["vb"]}
            violations.append((vlib.write_replay("C07", f"{tier}-src{len(violations)}", payload),
                               f"source: {j['kind']}: {e['_src'].strip().splitlines()[-4:-1]}"))
    # binding self-test: a thrown verdict must be rejected
    good = next((e for e in lines if e["load"] == "ok"), None)
    if good is not None:
        bad = dict(good, vt="E" + good["vt"][1:])
        pth = os.path.join(d, "srcneg.ndjson")
        with open(pth, "w") as f:
            f.write(json.dumps({"ev": "atoms", "atoms": {}}) + "\n" + json.dumps({kk: v for kk, v in bad.items() if not kk.startswith("_")}) + "\n")
        tn = vlib.validate_trace(pth, os.path.join(vlib.VERIF, "spec/trace/Trace_Mat.tla"), cfgt, heap="1g", tag=f"{tag}-srcneg",
                                 env_extra={"TYPES": typesf, "OPEN": openf})
        if not any(j["kind"] == "materialised-validator-threw" for j in vlib.tagged_lines(tn["lines"], "JUDGED")):
            raise ToolError("binding self-test failed: a throwing validator was accepted by Trace_Mat (source stage)")
    return violations, {"programs": len(progs), "outcomes": oc, "probes": len(probes)}, states, consumed

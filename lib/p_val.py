"""C01 / C11: validators accept exactly the members of the declared type (default / strict mode).

TLC enumerates programs (TypeGen families) with type-directed probe values and the reference verdicts;
each program is compiled by the real compiler, its validator is run on every probe by the Node driver,
and the observation log is judged by TLC (Trace_Val) against the reference semantics (BeffSem)."""
import copy
import json
import os
import time

import vlib
from vlib import ToolError, log

FAMILIES_QUICK = [("prim", 1), ("object", 1), ("tuple", 1), ("union", 1), ("tpl", 1), ("nonjson", 1), ("format", 1), ("disc", 1), ("util", 1), ("twin", 0)]
FAMILIES_THOROUGH = [("prim", 2), ("object", 2), ("tuple", 2), ("union", 2), ("tpl", 2), ("nonjson", 2), ("format", 2), ("disc", 2), ("util", 2), ("twin", 1)]


def generate(families, tag, deep=None):
    """Run TypeGen (or TypeGenU for the "util" family) per family; return (cases, tlc stats)."""
    cases = []
    stats = {"states": 0, "distinct": 0, "families": {}}
    if os.environ.get("VERIF_FAMILIES"):      # development aid only (never set by the registered commands): a subset of the families
        families = [(f, dp) for f, dp in families if f in os.environ["VERIF_FAMILIES"].split(",")]
    d = os.path.join(vlib.WORK, tag)
    os.makedirs(d, exist_ok=True)
    for fam, depth in families:
        cfg = os.path.join(d, f"MC_Gen_{fam}.cfg")
        if fam == "util":
            vlib.write_cfg(cfg, spec="USpec", constants={"MaxDepth": depth}, invariants=["EmitInv"])
            r = vlib.run_tlc(cfg, os.path.join(vlib.VERIF, "spec/mc/MC_GenU.tla"), workers=8, heap="8g", tag=f"gen-{fam}", timeout=3000)
        else:
            vlib.write_cfg(cfg, spec="Spec", constants={"Family": json.dumps(fam), "MaxDepth": depth},
                           invariants=["OracleLaws", "EmitInv"])
            r = vlib.run_tlc(cfg, os.path.join(vlib.VERIF, "spec/mc/MC_Gen.tla"), workers=8, heap="8g", tag=f"gen-{fam}", timeout=3000)
        if r["violated"] or not r["ok"]:
            raise ToolError(f"generator TLC run failed for family {fam}:\n{r['tail']}")
        cs = vlib.tagged_lines(r["lines"], "CASE")
        if len(cs) != r["distinct"]:
            raise ToolError(f"family {fam}: {len(cs)} CASE lines for {r['distinct']} distinct states")
        stats["states"] += r["states"]
        stats["distinct"] += r["distinct"]
        stats["families"][fam] = {"depth": depth, "programs": len(cs), "tlc_s": round(r["wall"], 1)}
        cases.extend(cs)
        log(f"[gen] {fam} depth {depth}: {len(cs)} programs in {r['wall']:.1f}s")
    # beyond the exhaustive depth: seeded random walks of the same state machine (TLC -simulate), deeper programs
    thorough = max(dp for _, dp in families) >= 2
    num, ddepth = deep if deep else ((200, 4) if thorough else (10, 3))   # TLC judges every successor of every state on a walk
    seen = {json.dumps([c["ty"], c["env"]], sort_keys=True) for c in cases}
    nd = 0
    for fam, depth in families:
        cfg = os.path.join(d, f"MC_GenDeep_{fam}.cfg")
        if fam == "util":
            vlib.write_cfg(cfg, spec="USpec", constants={"MaxDepth": ddepth}, invariants=["EmitInv"])
            mod = "spec/mc/MC_GenU.tla"
        else:
            vlib.write_cfg(cfg, spec="Spec", constants={"Family": json.dumps(fam), "MaxDepth": ddepth}, invariants=["OracleLaws", "EmitInv"])
            mod = "spec/mc/MC_Gen.tla"
        r = vlib.run_tlc(cfg, os.path.join(vlib.VERIF, mod), workers=1, heap="4g", tag=f"gendeep-{fam}", timeout=3000,
                         extra=["-simulate", f"num={num}", "-depth", str(ddepth + 1), "-seed", str(vlib.seed())])
        if r["violated"]:
            raise ToolError(f"generator TLC simulation failed for family {fam}:\n{r['tail']}")
        k = 0
        for c in vlib.tagged_lines(r["lines"], "CASE"):
            if c["depth"] <= depth:
                continue
            key = json.dumps([c["ty"], c["env"]], sort_keys=True)
            if key in seen:
                continue
            seen.add(key)
            cases.append(c)
            k += 1
        nd += k
        stats["states"] += r["states"]
        stats["families"][fam]["sampled_deeper_programs"] = k
    stats["distinct"] += nd
    log(f"[gen] + {nd} sampled programs of depth <= {ddepth}")
    return cases, stats


def builders(cases):
    """For every generated program whose root type the client's builder API can spell (b.Object, b.Array, b.Const, buntyped.Union,
    createNamedType, ...): the same type built at run time instead of compiled - same probes, same reference verdicts."""
    out, seen = [], set()
    for c in cases:
        if c.get("fam") == "util":
            continue
        e = vlib.b_expr(c["ty"], c["env"])
        if e is None or e in seen:
            continue
        seen.add(e)
        b = {k: v for k, v in c.items() if not k.startswith("_")}
        b["via"] = "b"
        b["_bexpr"] = e
        b["_src"] = "// built with the client's builder API, not compiled\nconst T = " + e + ";\n\n"
        out.append(b)
    return out


def observe(cases, tag, ops=("validate",)):
    """Compile and run every case; returns list of trace records (one per program)."""
    reqs = []
    for i, c in enumerate(cases):
        src = c.get("_src") or vlib.render_program(c["env"], c["ty"])
        c["_src"] = src
        reqs.append(vlib.build_req(i, c["_bexpr"]) if c.get("via") == "b" else vlib.compile_req(i, [("entry.ts", src)]))
    t0 = time.time()
    comp = vlib.compile_all(reqs)
    log(f"[compile] {len(reqs)} programs in {time.time() - t0:.1f}s")
    jobs = []
    for i, (c, r) in enumerate(zip(cases, comp)):
        c["_comp"] = r
        if r["outcome"] == "code":
            jobs.append({"id": i, "code": r["code"], "build": r.get("build"), "root": "T", "reqS": [], "reqN": [],
                         "probes": [p["v"] for p in c["probes"]], "ops": list(ops)})
    t0 = time.time()
    obs = vlib.run_driver(jobs, tag)
    log(f"[driver] {len(jobs)} modules in {time.time() - t0:.1f}s")
    recs = []
    for i, c in enumerate(cases):
        r = c["_comp"]
        # the trace carries the type-level evaluation (TsEval!Ev) for programs that use type operators
        rec = {"ev": "prog", "id": i, "ty": c.get("nty", c["ty"]), "env": c.get("nenv", c["env"]), "outcome": r["outcome"], "load": "none", "obs": []}
        if r["outcome"] == "code":
            o = obs.get(i)
            if o is None:
                raise ToolError(f"driver returned nothing for job {i}")
            rec["load"] = o["load"]
            rec["obs"] = [{"v": p["v"], "val": p.get("val", "E:none"), "vals": p.get("vals", "E:none"),
                           "hist": p.get("hist", ""), "hist2": p.get("hist2", "")} for p in o["probes"]]
            c["_obs"] = o
        recs.append(rec)
    return recs


def judge(recs, tag, open_devs, shards=8):
    """Run Trace_Val over the records (sharded); returns (judged list, consumed total, tlc states)."""
    d = os.path.join(vlib.WORK, tag)
    os.makedirs(d, exist_ok=True)
    openf = os.path.join(d, "open.ndjson")
    with open(openf, "w") as f:
        f.write(json.dumps({"devs": sorted(open_devs)}) + "\n")
    shards = max(1, min(shards, len(recs) // 40 + 1))
    import concurrent.futures as cf
    parts = [recs[s::shards] for s in range(shards)]
    paths = []
    for s, part in enumerate(parts):
        p = os.path.join(d, f"trace{s}.ndjson")
        with open(p, "w") as f:
            for r in part:
                f.write(json.dumps(r) + "\n")
        paths.append(p)

    def one(s):
        return vlib.validate_trace(paths[s], os.path.join(vlib.VERIF, "spec/trace/Trace_Val.tla"),
                                   os.path.join(vlib.VERIF, "spec/trace/Trace_Val.cfg"),
                                   env_extra={"OPEN": openf}, heap="3g", tag=f"{tag}-{s}")

    judged, consumed, states = [], 0, 0
    with cf.ThreadPoolExecutor(max_workers=shards) as ex:
        for s, r in enumerate(ex.map(one, range(shards))):
            cons = vlib.tagged_lines(r["lines"], "CONSUMED")
            if not cons:
                raise ToolError(f"trace validation did not finish (shard {s}):\n{r['tail']}")
            if cons[0]["n"] != cons[0]["of"] or cons[0]["of"] != len(parts[s]):
                raise ToolError(f"trace shard {s} not fully consumed: {cons[0]} of {len(parts[s])}\n{r['tail']}")
            consumed += cons[0]["n"]
            states += r["distinct"]
            for j in vlib.tagged_lines(r["lines"], "JUDGED"):
                j["_rec"] = parts[s][j["line"] - 1]
                judged.append(j)
    return judged, consumed, states


def negative_control(recs, tag, open_devs):
    """Corrupt one logged verdict of an accepted line; the trace spec must flag it."""
    for r in recs:
        if r["outcome"] == "code" and r["obs"]:
            for i, ob in enumerate(r["obs"]):
                if ob["val"] in ("T", "F"):
                    bad = copy.deepcopy(r)
                    bad["obs"] = [copy.deepcopy(ob)]
                    bad["obs"][0]["val"] = "F" if ob["val"] == "T" else "T"
                    # only usable if the uncorrupted observation was accepted (not contested)
                    judged, _, _ = judge([bad], tag + "-neg", open_devs, shards=1)
                    if any(j["class"] == "NEW" and j["prop"] == "C01" for j in judged):
                        return f"rejected@program{r['id']}/probe{i + 1}"
            break
    raise ToolError("binding self-test failed: a corrupted verdict was accepted by Trace_Val")


def run(prop, tier):
    t0 = time.time()
    vlib.build()
    fams = FAMILIES_QUICK if tier == "quick" else FAMILIES_THOROUGH
    tag = f"{prop}-{tier}"
    vlib.clear_replays(prop, tier)
    cases, gstats = generate(fams, tag)
    recs = observe(cases, tag)
    open_k = vlib.open_findings("C01") + vlib.open_findings("C11")
    open_devs = {k["deviation"] for k in open_k if k.get("deviation")}
    judged, consumed, tstates = judge(recs, tag, open_devs)
    neg = negative_control(recs, tag, open_devs)

    mine = [j for j in judged if j["prop"] == prop]
    dev_to_k = {k["deviation"]: k for k in open_k if k.get("deviation") and k["property"] == prop}
    violations, known_hits = [], []
    for j in mine:
        rec = j["_rec"]
        case = cases[rec["id"]]
        if j["class"] in dev_to_k:
            k = dev_to_k[j["class"]]
            known_hits.append((k["id"], k["what"]))
            continue
        ob = rec["obs"][j["probe"] - 1] if j["probe"] > 0 else None
        payload = {"property": prop, "program": case["_src"], "type_term": rec["ty"], "env": rec["env"],
                   "value": ob["v"] if ob else None, "mode": "strict" if prop == "C11" else "default",
                   "expected": j["exp"], "observed": j["obs"], "class": j["class"],
                   "compile_outcome": {k: v for k, v in case["_comp"].items() if k != "code"},
                   "how_to_rerun": f"bin/check {prop} --replay <this file>"}
        path = vlib.write_replay(prop, f"{tier}-{len(violations)}", payload)
        violations.append((path, f"{case['_src'].strip().splitlines()[-2]} value={json.dumps(ob['v']) if ob else '-'} "
                                 f"expected={j['exp']} observed={j['obs']}"))
    nprobe = sum(len(r["obs"]) for r in recs)
    contested = sum(1 for c in cases for p in c["probes"] if (p["e"] if prop == "C01" else p["es"]) == "X")
    accept = sum(1 for c in cases for p in c["probes"] if (p["e"] if prop == "C01" else p["es"]) == "T")
    samples = []
    for c in cases[:: max(1, len(cases) // 4)][:4]:
        samples.append({"program": c["_src"], "probe": c["probes"][0]["v"],
                        "expected": c["probes"][0]["e"], "expected_strict": c["probes"][0]["es"]})
    cov = {
        "states": gstats["distinct"] + tstates, "transitions": gstats["states"] + consumed,
        "traces_validated_against_impl": consumed, "samples": samples,
        "generator_states": gstats["distinct"], "trace_states": tstates, "programs": len(cases),
        "families": gstats["families"], "verdicts_compared": nprobe,
        "verdicts_expected_accept": accept, "verdicts_contested": contested,
        "programs_declined_with_diagnostics": sum(1 for r in recs if r["outcome"] == "diags"),
        "known_findings_hit": sorted({k for k, _ in known_hits}), "known_finding_observations": len(known_hits),
        "binding_selftest": neg, "exhaustive": False, "exhaustively_enumerated_depth": max(dp for _, dp in fams),
        "rule": "TLC breadth-first over TypeGen per family up to MaxDepth (every reachable program) + seeded random walks to greater depth; probes are "
                "type-directed (Probe.tla) plus a fixed atom pool; a case is one (program, value, mode) triple",
    }
    vlib.write_evidence(prop, tier, cov, time.time() - t0, len(violations),
                        ["TLC evaluates the reference semantics BeffSem.tla both when generating and when judging the trace",
                         "TypeScript itself is not available; membership is my TLA+ transcription, contested pairs are don't-care",
                         "value codec of driver/driver.mjs (round-trip self-tested)", "swc-based type stripper for the client runtime"])
    vlib.finish(prop, violations, known_hits)


def replay(prop, path):
    """re-execute one recorded (program, value, mode) on the current tree and judge it again with Trace_Val.tla"""
    import sys
    vlib.build()
    pl = json.load(open(path))
    case = {"ty": pl["type_term"], "env": pl["env"], "probes": [{"v": pl["value"]}], "_src": pl["program"]}
    recs = observe([case], f"{prop}-replay")
    devs = {k["deviation"] for k in vlib.open_findings(prop) if k.get("deviation")}
    judged, _, _ = judge(recs, f"{prop}-replay", devs, shards=1)
    ob = recs[0]["obs"][0] if recs[0]["obs"] else {"val": recs[0]["outcome"], "vals": recs[0]["outcome"]}
    print(f"program: {pl['program'].strip()}\nvalue: {json.dumps(pl['value'])}\nmode: {pl['mode']}  recorded: expected {pl['expected']} observed {pl['observed']}")
    print(f"now: compile {recs[0]['outcome']}, validate default = {ob['val']}, strict = {ob['vals']}")
    mine = [j for j in judged if j["prop"] == prop]
    for j in mine:
        if j["class"] == "NEW":
            print(f"VIOLATION property={prop} replay={os.path.abspath(path)}")
            sys.exit(1)
        print(f"KNOWN-FINDING: property={prop} {j['class']}")
    print("the recorded violation does not reproduce on the current tree" if not mine else "")

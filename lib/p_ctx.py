"""C16: schema-printing contexts collect definitions independently of call order.

SchemaCtx.tla is the state machine (context state x schemaWithContext calls).  TLC checks the design invariant
on all call sequences up to MaxCalls (both with and without overrides), emits every sequence, and every sequence
is replayed on a real SchemaPrintingContext; Trace_Ctx.tla then requires each logged call to be a Call(p) step of
the model and judges the logged definitions."""
import copy
import json
import os
import time

import vlib
from vlib import ToolError, log

# the project is SchemaCtx!Env, emitted by MC_SchemaCtx (ENVJ) and rendered here
def project_ts(env):
    decls = [f"type {d['n']} = {vlib.ts(d['ty'])};" for d in env]
    names = [d["n"] for d in env]
    return "\n".join(decls) + "\nparse.buildParsers<{ " + "; ".join(f"{n}: {n}" for n in names) + " }>();\n", names


CFGS = [
    {"name": "defs", "ov": False, "refPathTemplate": "#/$defs/{name}", "definitionContainerKey": "$defs", "overrides": None},
    {"name": "openapi", "ov": False, "refPathTemplate": "#/components/schemas/{name}", "definitionContainerKey": None, "overrides": None},
    {"name": "urls", "ov": False, "refPathTemplate": "https://example.com/schemas/{name}.json", "definitionContainerKey": None, "overrides": None},
    {"name": "defs+override", "ov": True, "refPathTemplate": "#/$defs/{name}", "definitionContainerKey": "$defs", "overrides": {"VA": "VAo"}},
]


def model(tag, maxcalls, deviations, simulate=None):
    d = os.path.join(vlib.WORK, tag)
    os.makedirs(d, exist_ok=True)
    cfg = os.path.join(d, "MC_SchemaCtx.cfg")
    dev = "{" + ", ".join(json.dumps(x) for x in sorted(deviations)) + "}"
    vlib.write_cfg(cfg, spec="Spec", constants={"MaxCalls": maxcalls, "Deviations": dev}, invariants=["DesignOK", "EmitInv"])
    extra = []
    if simulate:
        extra = ["-simulate", f"num={simulate}", "-depth", str(maxcalls + 1), "-seed", str(vlib.seed())]
    r = vlib.run_tlc(cfg, os.path.join(vlib.VERIF, "spec/mc/MC_SchemaCtx.tla"), workers=1 if simulate else 8, heap="4g",
                     tag="schemactx", extra=extra)
    if r["violated"] or (not simulate and not r["ok"]):
        raise ToolError("SchemaCtx design check failed:\n" + r["tail"])
    seqs = vlib.tagged_lines(r["lines"], "SEQ")
    r["env"] = vlib.tagged_lines(r["lines"], "ENVJ")[0]["env"]
    return seqs, r


def run(prop, tier):
    t0 = time.time()
    vlib.build()
    tag = f"{prop}-{tier}"
    vlib.clear_replays(prop, tier)
    open_k = vlib.open_findings("C16")
    deviations = {k["deviation"] for k in open_k if k.get("deviation")}
    dev_to_k = {k["deviation"]: k for k in open_k if k.get("deviation")}
    maxcalls = 3
    seqs, mr = model(tag, maxcalls, deviations)
    states, distinct = mr["states"], mr["distinct"]
    # maximal sequences only: every prefix is a step of the replay
    full = sorted({(s["ov"], tuple(s["calls"])) for s in seqs if len(s["calls"]) == maxcalls})
    if tier == "thorough":
        sim, sr = model(tag + "-sim", 7, deviations, simulate=3000)
        longs = sorted({(s["ov"], tuple(s["calls"])) for s in sim if len(s["calls"]) == 7})
        full += longs
        states += sr["states"]
    log(f"[model] {distinct} states; {len(full)} call sequences to replay")

    PROJECT_TS, ALL = project_ts(mr["env"])
    comp = vlib.compile_all([vlib.compile_req(0, [("entry.ts", PROJECT_TS)])])[0]
    if comp["outcome"] != "code":
        raise ToolError(f"the C16 project does not compile: {comp}")
    jobs = []
    per = 150
    runs_spec = []
    sid = 0
    for ci, cfg in enumerate(CFGS):
        mine = [c for (ov, c) in full if ov == cfg["ov"]]
        for k in range(0, len(mine), per):
            chunk = mine[k:k + per]
            sq = []
            for c in chunk:
                sq.append({"sid": sid, "cfg": 0, "calls": list(c)})
                sid += 1
            jobs.append({"kind": "ctxseq", "id": len(jobs), "code": comp["code"], "parsers": ALL,
                         "cfgs": [{k2: cfg[k2] for k2 in ("refPathTemplate", "definitionContainerKey", "overrides")}],
                         "seqs": sq, "_cfg": ci})
    obs = vlib.run_driver([{k: v for k, v in j.items() if k != "_cfg"} for j in jobs], tag, shards=min(12, len(jobs)))
    # traces: one per job (fresh events, then reset/call events)
    d = os.path.join(vlib.WORK, tag)
    traces = []
    nseq = ncalls = 0
    for j in jobs:
        o = obs[j["id"]]
        if o["load"] != "ok":
            raise ToolError("C16 project failed to load: " + o["loadmsg"])
        cfg = CFGS[j["_cfg"]]
        pre, suf = cfg["refPathTemplate"].split("{name}")
        lines = []
        for f in o["fresh"]:
            lines.append({"ev": "fresh", "cfg": cfg["name"], "p": f["p"], "ok": f["ok"], "defs": f["defs"], "inprog": f["inprog"]})
        for run_ in o["runs"]:
            lines.append({"ev": "reset", "cfg": cfg["name"], "ov": cfg["ov"], "sid": run_["sid"]})
            nseq += 1
            for st in run_["steps"]:
                lines.append({"ev": "call", "p": st["p"], "ok": st["ok"], "schema": st["schema"], "defs": st["defs"],
                              "inprog": st["inprog"], "pre": pre, "suf": suf, "_json": {"schema": st["schemajson"], "defs": st["defsjson"], "msg": st["msg"]}})
                ncalls += 1
        traces.append(lines)
    judged, consumed, tstates = judge(traces, tag, deviations)
    neg = negative_control(traces, tag, deviations)

    violations, known_hits = [], []
    seen = set()
    for jd in judged:
        lines = jd["_trace"]
        ln = lines[jd["line"] - 1]
        # reconstruct the history
        k = jd["line"] - 1
        hist = []
        while k >= 0 and lines[k]["ev"] == "call":
            hist.append(lines[k]["p"])
            k -= 1
        hist.reverse()
        cfgname = lines[k]["cfg"] if k >= 0 else ln.get("cfg")
        key = (jd["kind"], jd["name"], cfgname, tuple(sorted(hist)))
        if key in seen:
            continue
        seen.add(key)
        if jd.get("class", "NEW") in dev_to_k:
            kf = dev_to_k[jd["class"]]
            known_hits.append((kf["id"], kf["what"]))
            continue
        payload = {"property": prop, "project": PROJECT_TS, "configuration": cfgname, "calls": hist or [ln.get("p")],
                   "complaint": jd["kind"], "about": jd["name"], "last_call": ln.get("_json"),
                   "how_to_rerun": f"bin/check {prop} --replay <this file>"}
        path = vlib.write_replay(prop, f"{tier}-{len(violations)}", payload)
        violations.append((path, f"{jd['kind']} ({jd['name']}) after calls {hist} in configuration {cfgname}"))
    samples = [{"configuration": "defs+override", "calls": ["U", "Holder"], "what_is_checked":
                "after each call: inProgress empty, collected names = model, each definition = fresh definition, refs resolve"},
               {"configuration": CFGS[0]["name"], "calls": list(full[0][1])}]
    cov = {"states": distinct + tstates, "transitions": states + consumed, "traces_validated_against_impl": nseq,
           "samples": samples, "model_states": distinct, "call_sequences_replayed": nseq, "calls_replayed": ncalls,
           "configurations": [c["name"] for c in CFGS], "max_calls_exhaustive": maxcalls,
           "design_invariant": "DesignOK (NothingInProgress, RefsClosed, OrderIndependent, SameOutcomeAsFresh) holds on every model state",
           "binding_selftest": neg, "exhaustive": True,
           "rule": "all call sequences of length <= MaxCalls over the 9 parsers of the fixed project, with and without "
                   "namedTypeSchemaOverrides; thorough adds seeded random sequences of length 7"}
    vlib.write_evidence(prop, tier, cov, time.time() - t0, len(violations),
                        ["the project of SchemaCtx.tla (recursive, mutually recursive, discriminated with named and inline variants, "
                         "an override, an unprintable type) stands for 'sets of parsers sharing named and recursive types'",
                         "definitions are compared structurally (JSON equality)"])
    vlib.finish(prop, violations, known_hits)


def judge(traces, tag, deviations):
    d = os.path.join(vlib.WORK, tag)
    os.makedirs(d, exist_ok=True)
    cfgp = os.path.join(d, "Trace_Ctx.cfg")
    dev = "{" + ", ".join(json.dumps(x) for x in sorted(deviations)) + "}"
    vlib.write_cfg(cfgp, spec="TraceSpec", constants={"MaxCalls": 100000, "Deviations": dev}, invariants=["Report"],
                   postcondition="Accepted")
    import concurrent.futures as cf
    paths = []
    for s, lines in enumerate(traces):
        p = os.path.join(d, f"ctrace{s}.ndjson")
        with open(p, "w") as f:
            for ln in lines:
                f.write(json.dumps({k: v for k, v in ln.items() if not k.startswith("_")}) + "\n")
        paths.append(p)

    def one(s):
        return vlib.validate_trace(paths[s], os.path.join(vlib.VERIF, "spec/trace/Trace_Ctx.tla"), cfgp, heap="3g", tag=f"{tag}-{s}")

    judged, consumed, states = [], 0, 0
    with cf.ThreadPoolExecutor(max_workers=min(12, max(1, len(traces)))) as ex:
        for s, r in enumerate(ex.map(one, range(len(traces)))):
            cons = vlib.tagged_lines(r["lines"], "CONSUMED")
            if not cons or cons[0]["n"] != cons[0]["of"] or cons[0]["of"] != len(traces[s]):
                raise ToolError(f"C16 trace {s} not fully consumed (a logged call is not a step of SchemaCtx): {cons}\n{r['tail']}")
            consumed += cons[0]["n"]
            states += r["distinct"]
            for j in vlib.tagged_lines(r["lines"], "JUDGED"):
                j["_trace"] = traces[s]
                judged.append(j)
    return judged, consumed, states


def negative_control(traces, tag, deviations):
    """Remove one definition from a logged call: Trace_Ctx must complain."""
    lines = copy.deepcopy(traces[0][:40])
    for ln in lines:
        if ln["ev"] == "call" and ln["defs"]["ps"]:
            ln["defs"]["ps"] = ln["defs"]["ps"][1:]
            jd, _, _ = judge([lines], tag + "-neg", deviations)
            if jd:
                return f"rejected: {jd[0]['kind']}"
            break
    raise ToolError("binding self-test failed: a trace with a dropped definition was accepted")

//! session: replay watch-mode histories on the real beff-wasm session code (native host, cfg beff_verif).
//! stdin: ndjson {id, init: {path: text}, entry, steps: [{op:"edit"|"create", f: path, text} | {op:"delete", f} | {op:"rebuild"}]}
//! stdout: ndjson {id, events: [{op, f, was_watched, built, out, fresh, cache, watched}]}
//! Every history runs on its own thread (= its own thread-local BUNDLER); "fresh" is the same build on yet
//! another new thread with an empty cache and the current disk.
use beff_wasm::verif;
use beffverif::resolve_on_disk;
use serde_json::{Value, json};
use std::collections::{BTreeMap, BTreeSet};
use std::io::{BufRead, Write};

const SETTINGS: &str = r#"{"string_formats":[],"number_formats":[]}"#;

fn resolver(disk: &BTreeMap<String, String>, cur: &str, spec: &str) -> Option<String> {
    resolve_on_disk(disk, cur, spec)
}

fn build(entry: &str) -> Value {
    verif::with_host(|h| h.emitted.clear());
    match verif::bundle(entry, SETTINGS) {
        Some(code) => json!({"kind":"code","text":code}),
        None => {
            let d = verif::with_host(|h| h.emitted.join("\n"));
            json!({"kind":"diags","text":d})
        }
    }
}

fn fresh(disk: BTreeMap<String, String>, entry: String) -> Value {
    std::thread::spawn(move || {
        verif::with_host(|h| {
            h.disk = disk;
            h.resolver = Some(resolver);
        });
        build(&entry)
    })
    .join()
    .unwrap_or(json!({"kind":"panic","text":""}))
}

fn run(job: Value) -> Value {
    let entry = job["entry"].as_str().unwrap_or("entry.ts").to_string();
    let init: BTreeMap<String, String> = job["init"]
        .as_object()
        .map(|o| o.iter().map(|(k, v)| (k.clone(), v.as_str().unwrap_or("").to_string())).collect())
        .unwrap_or_default();
    verif::with_host(|h| {
        h.disk = init;
        h.resolver = Some(resolver);
    });
    let mut events = vec![];
    for st in job["steps"].as_array().cloned().unwrap_or_default() {
        let op = st["op"].as_str().unwrap_or("");
        let watched: BTreeSet<String> = verif::with_host(|h| h.reads.iter().cloned().collect());
        let mut ev = json!({"op": op, "f": st["f"], "was_watched": false, "built": false});
        let mut do_build = op == "rebuild";
        if op == "edit" {
            let f = st["f"].as_str().unwrap_or("").to_string();
            let text = st["text"].as_str().unwrap_or("").to_string();
            verif::with_host(|h| {
                h.disk.insert(f.clone(), text.clone());
            });
            if watched.contains(&f) {
                // ts-node/commandeer.ts: on change -> updateFileContent -> exec()
                ev["was_watched"] = json!(true);
                verif::update(&f, &text);
                do_build = true;
            }
        }
        if op == "create" || op == "delete" {
            // chokidar is subscribed to "change" only: a file that appears or disappears is not forwarded to the session
            let f = st["f"].as_str().unwrap_or("").to_string();
            let text = st["text"].as_str().unwrap_or("").to_string();
            verif::with_host(|h| {
                if op == "create" {
                    h.disk.insert(f.clone(), text.clone());
                } else {
                    h.disk.remove(&f);
                }
            });
        }
        if do_build {
            ev["built"] = json!(true);
            ev["out"] = build(&entry);
            let disk = verif::with_host(|h| h.disk.clone());
            ev["fresh"] = fresh(disk, entry.clone());
        } else {
            ev["out"] = json!({"kind":"none","text":""});
            ev["fresh"] = json!({"kind":"none","text":""});
        }
        ev["cache"] = json!(verif::cache_keys());
        let w: BTreeSet<String> = verif::with_host(|h| h.reads.iter().cloned().collect());
        ev["watched"] = json!(w.into_iter().collect::<Vec<_>>());
        events.push(ev);
    }
    json!({"id": job["id"], "events": events})
}

fn main() {
    beffverif::install_panic_hook();
    let stdin = std::io::stdin();
    let stdout = std::io::stdout();
    for line in stdin.lock().lines() {
        let Ok(line) = line else { break };
        if line.trim().is_empty() {
            continue;
        }
        let job: Value = serde_json::from_str(&line).expect("bad job");
        let id = job["id"].clone();
        let res = std::thread::spawn(move || run(job)).join();
        let out = match res {
            Ok(v) => v,
            Err(_) => json!({"id": id, "panic": true}),
        };
        let mut o = stdout.lock();
        let _ = writeln!(o, "{}", out);
        let _ = o.flush();
    }
}

//! semtool: drive the semantic subtyping engine of beff-core through its public API.
//!
//! stdin ndjson requests, one response per request:
//!  {"id", "kind":"bdd", "cases":[{"x":bdd,"y":bdd}]}
//!       -> {"id","results":[{"u","i","d","c","dnf","back"}]}            raw BddOps / dnf transitions
//!  {"id", "kind":"sem", "files":[[name,text]], "names":[..], "ops":[{"op":..,"a":..,"b":..,"as":..}], "dump":[..], "materialize":[..]}
//!       -> {"id","outcome":"ok","results":[..per op..],"dumps":{name:semtype},"atoms":{..},"materialized":{name:{..}}}
//! ops: sub | same | empty (boolean results), union | intersect | diff | complement | keyof | index (new semtype stored under "as")
use beff_core::ast::runtype::{Optionality, Runtype, RuntypeConst, RuntypeKind, TplLitTypeItem};
use beff_core::parser_extractor::{BuiltDecoder, ParserExtractResult};
use beff_core::subtyping::ToSemType;
use beff_core::subtyping::bdd::{Atom, Bdd, BddOps, ListAtomic, MappingAtomicType};
use beff_core::subtyping::dnf::{bdd_to_dnf, dnf_to_bdd};
use beff_core::subtyping::semtype::{SemType, SemTypeContext, SemTypeOps};
use beff_core::subtyping::subtype::{
    NumberRepresentationOrFormat, ProperSubtype, StringLitOrFormat, SubTypeTag, VoidUndefinedSubtype,
};
use beff_core::subtyping::to_schema::semtype_to_runtypes;
use beff_core::{BeffUserSettings, BffFileName, EntryPoints, NamedSchema, RuntypeName, RuntypeUUID, TypeAddress};
use beffverif::{MemProject, install_panic_hook, take_panic};
use serde_json::{Map, Value, json};
use std::collections::{BTreeMap, BTreeSet};
use std::io::{BufRead, Write};
use std::panic::{AssertUnwindSafe, catch_unwind};
use std::rc::Rc;
use swc_common::{GLOBALS, Globals};

// ------------------------------------------------------------------------------------------ BDD json
fn bdd_from(v: &Value) -> Rc<Bdd> {
    match v["t"].as_str() {
        Some("T") => Rc::new(Bdd::True),
        Some("F") => Rc::new(Bdd::False),
        _ => Rc::new(Bdd::Node {
            atom: Atom::Mapping(v["a"].as_u64().unwrap_or(0) as usize),
            left: bdd_from(&v["l"]),
            middle: bdd_from(&v["m"]),
            right: bdd_from(&v["r"]),
        }),
    }
}
fn atom_json(a: &Atom) -> Value {
    match a {
        Atom::Mapping(i) => json!({"k":"mapping","i":i}),
        Atom::List(i) => json!({"k":"list","i":i}),
        Atom::Map(i) => json!({"k":"map","i":i}),
        Atom::Set(i) => json!({"k":"set","i":i}),
    }
}
fn atom_idx(a: &Atom) -> usize {
    match a {
        Atom::Mapping(i) | Atom::List(i) | Atom::Map(i) | Atom::Set(i) => *i,
    }
}
fn bdd_to(b: &Bdd, raw: bool) -> Value {
    match b {
        Bdd::True => json!({"t":"T"}),
        Bdd::False => json!({"t":"F"}),
        Bdd::Node {
            atom,
            left,
            middle,
            right,
        } => json!({"t":"N","a": if raw { json!(atom_idx(atom)) } else { atom_json(atom) },
            "l":bdd_to(left, raw),"m":bdd_to(middle, raw),"r":bdd_to(right, raw)}),
    }
}

fn run_bdd(req: &Value) -> Value {
    let mut out = vec![];
    for c in req["cases"].as_array().cloned().unwrap_or_default() {
        let x = bdd_from(&c["x"]);
        let y = bdd_from(&c["y"]);
        let dnf = bdd_to_dnf(&x);
        let back = dnf_to_bdd(&dnf);
        let dnf_json: Vec<Value> = dnf
            .iter()
            .map(|cj| {
                json!({"pos": cj.positive.iter().map(atom_idx).collect::<Vec<_>>(),
                       "neg": cj.negative.iter().map(atom_idx).collect::<Vec<_>>()})
            })
            .collect();
        out.push(json!({
            "u": bdd_to(&x.union(&y), true), "i": bdd_to(&x.intersect(&y), true),
            "d": bdd_to(&x.diff(&y), true), "c": bdd_to(&x.complement(), true),
            "dnf": dnf_json, "back": bdd_to(&back, true)
        }));
    }
    json!({"results": out})
}

// ------------------------------------------------------------------------------------------ names
fn uuid_name(u: &RuntypeUUID) -> String {
    let base = match &u.ty {
        RuntypeName::Address(a) => a.name.clone(),
        RuntypeName::SemtypeRecursiveGenerated(n) => format!("RecursiveGenerated{n}"),
        RuntypeName::EnumItem {
            address,
            member_name,
        } => format!("{}__{}", address.name, member_name),
        RuntypeName::BuiltIn(b) => format!("{b}"),
    };
    if u.type_arguments.is_empty() {
        base
    } else {
        use std::hash::{Hash, Hasher};
        let mut h = std::collections::hash_map::DefaultHasher::new();
        format!("{:?}", u.type_arguments).hash(&mut h);
        format!("{}_inst{:x}", base, h.finish() & 0xffff)
    }
}

// ------------------------------------------------------------------------------------------ Runtype -> type term json
fn num_tok(n: &beff_core::ast::json::N) -> String {
    let f = n.to_f64();
    if f.fract() == 0.0 { format!("{}", f as i64) } else { format!("{}", f) }
}
fn vstr(s: &str) -> Value {
    json!({"k":"str","s":s})
}
fn tpl_parts(items: &[TplLitTypeItem]) -> Option<Vec<Value>> {
    let mut out = vec![];
    for it in items {
        out.push(match it {
            TplLitTypeItem::String => json!({"p":"str"}),
            TplLitTypeItem::Number => json!({"p":"num"}),
            TplLitTypeItem::Boolean => json!({"p":"bool"}),
            TplLitTypeItem::StringConst(s) => json!({"p":"lit","s":s}),
            TplLitTypeItem::OneOf(vs) => {
                let mut ss = vec![];
                for v in vs {
                    match v {
                        TplLitTypeItem::StringConst(s) => ss.push(s.clone()),
                        _ => return None,
                    }
                }
                json!({"p":"oneof","ss":ss})
            }
        });
    }
    Some(out)
}
fn rt_json(rt: &Runtype) -> Value {
    let prim = |p: &str| json!({"t":"prim","p":p});
    match &rt.kind {
        RuntypeKind::Null => prim("null"),
        RuntypeKind::Undefined => prim("undefined"),
        RuntypeKind::Void => prim("void"),
        RuntypeKind::Boolean => prim("boolean"),
        RuntypeKind::String => prim("string"),
        RuntypeKind::Number => prim("number"),
        RuntypeKind::Any => prim("any"),
        RuntypeKind::Never => prim("never"),
        RuntypeKind::Function => prim("Function"),
        RuntypeKind::Date => prim("Date"),
        RuntypeKind::BigInt => prim("bigint"),
        RuntypeKind::AnyArrayLike => json!({"t":"arr","e":prim("any")}),
        RuntypeKind::StringWithFormat(f) => {
            let mut fs = vec![f.0.clone()];
            fs.extend(f.1.iter().cloned());
            json!({"t":"sfmt","fs":fs})
        }
        RuntypeKind::NumberWithFormat(f) => {
            let mut fs = vec![f.0.clone()];
            fs.extend(f.1.iter().cloned());
            json!({"t":"nfmt","fs":fs})
        }
        RuntypeKind::TplLitType(t) => match t.0.as_slice() {
            [TplLitTypeItem::StringConst(s)] => json!({"t":"lit","v":vstr(s)}),
            items => match tpl_parts(items) {
                Some(parts) => json!({"t":"tpl","parts":parts}),
                None => json!({"t":"raw","s":t.describe()}),
            },
        },
        RuntypeKind::Const(RuntypeConst::Bool(b)) => json!({"t":"lit","v":{"k":"bool","b":b}}),
        RuntypeKind::Const(RuntypeConst::Number(n)) => json!({"t":"lit","v":{"k":"num","n":num_tok(n)}}),
        RuntypeKind::Array(e) => json!({"t":"arr","e":rt_json(e)}),
        RuntypeKind::Set(e) => json!({"t":"set","e":rt_json(e)}),
        RuntypeKind::Map(k, v) => json!({"t":"map","kt":rt_json(k),"vt":rt_json(v)}),
        RuntypeKind::TypedArray(k) => json!({"t":"ta","c":k.js_name()}),
        RuntypeKind::Tuple {
            prefix_items,
            items,
        } => json!({"t":"tuple","es":prefix_items.iter().map(rt_json).collect::<Vec<_>>(),
                    "r": items.iter().map(|i| rt_json(i)).collect::<Vec<_>>()}),
        RuntypeKind::Ref(u) => json!({"t":"ref","n":uuid_name(u)}),
        RuntypeKind::AnyOf(vs) => json!({"t":"union","ms":vs.iter().map(rt_json).collect::<Vec<_>>()}),
        RuntypeKind::AllOf(vs) => json!({"t":"inter","ms":vs.iter().map(rt_json).collect::<Vec<_>>()}),
        RuntypeKind::StNot(a) => json!({"t":"not","a":rt_json(a)}),
        RuntypeKind::Object {
            vs,
            indexed_properties,
        } => {
            let ps: Vec<Value> = vs
                .iter()
                .map(|(k, v)| json!({"key":k,"ty":rt_json(v.inner()),"opt":!v.is_required()}))
                .collect();
            let ix: Vec<Value> = indexed_properties
                .iter()
                .map(|ip| json!({"kt":rt_json(&ip.key),"vt":rt_json(ip.value.inner()),"vopt":!ip.value.is_required()}))
                .collect();
            json!({"t":"obj","ps":ps,"ix":ix})
        }
    }
}
#[allow(dead_code)]
fn _unused(_: Optionality<Runtype>) {}

// ------------------------------------------------------------------------------------------ SemType dump
struct Dumper<'a> {
    ctx: &'a SemTypeContext,
    todo: Vec<Atom>,
    seen: BTreeSet<Atom>,
}
fn tag_name(t: SubTypeTag) -> &'static str {
    match t {
        SubTypeTag::Boolean => "boolean",
        SubTypeTag::Number => "number",
        SubTypeTag::String => "string",
        SubTypeTag::Null => "null",
        SubTypeTag::Mapping => "mapping",
        SubTypeTag::OptionalProp => "optionalProp",
        SubTypeTag::List => "list",
        SubTypeTag::BigInt => "bigint",
        SubTypeTag::Date => "date",
        SubTypeTag::VoidUndefined => "voidUndefined",
        SubTypeTag::TypedArray => "typedArray",
        SubTypeTag::Map => "map",
        SubTypeTag::Set => "set",
    }
}
impl Dumper<'_> {
    fn bdd(&mut self, b: &Bdd) -> Value {
        if let Bdd::Node { atom, .. } = b {
            if self.seen.insert(*atom) {
                self.todo.push(*atom);
            }
        }
        match b {
            Bdd::True => json!({"t":"T"}),
            Bdd::False => json!({"t":"F"}),
            Bdd::Node {
                atom,
                left,
                middle,
                right,
            } => json!({"t":"N","a":atom_idx(atom),"l":self.bdd(left),"m":self.bdd(middle),"r":self.bdd(right)}),
        }
    }
    fn st(&mut self, st: &SemType) -> Value {
        let all: Vec<&str> = SubTypeTag::all()
            .into_iter()
            .filter(|t| st.all & t.code() != 0)
            .map(tag_name)
            .collect();
        let mut sub = vec![];
        for s in &st.subtype_data {
            sub.push(match s.as_ref() {
                ProperSubtype::Boolean(b) => json!({"tag":"boolean","b":b}),
                ProperSubtype::Number { allowed, values } => json!({"tag":"number","allowed":allowed,
                    "lits": values.iter().map(|v| match v {
                        NumberRepresentationOrFormat::Lit(n) => num_tok(n),
                        NumberRepresentationOrFormat::Format(f) => format!("fmt:{}:{}", f.0, f.1.join(",")),
                    }).collect::<Vec<_>>()}),
                ProperSubtype::String { allowed, values } => json!({"tag":"string","allowed":allowed,
                    "lits": values.iter().map(|v| match v {
                        StringLitOrFormat::Tpl(t) => match t.0.as_slice() {
                            [TplLitTypeItem::StringConst(s)] => format!("lit:{s}"),
                            _ => format!("tpl:{}", t.describe()),
                        },
                        StringLitOrFormat::Format(f) => format!("fmt:{}:{}", f.0, f.1.join(",")),
                    }).collect::<Vec<_>>()}),
                ProperSubtype::VoidUndefined { allowed, values } => json!({"tag":"voidUndefined","allowed":allowed,
                    "lits": values.iter().map(|v| match v { VoidUndefinedSubtype::Void => "void", VoidUndefinedSubtype::Undefined => "undefined" }).collect::<Vec<_>>()}),
                ProperSubtype::TypedArray { allowed, values } => json!({"tag":"typedArray","allowed":allowed,
                    "lits": values.iter().map(|v| v.js_name()).collect::<Vec<_>>()}),
                ProperSubtype::Mapping(b) => json!({"tag":"mapping","bdd":self.bdd(b)}),
                ProperSubtype::List(b) => json!({"tag":"list","bdd":self.bdd(b)}),
                ProperSubtype::Map(b) => json!({"tag":"map","bdd":self.bdd(b)}),
                ProperSubtype::Set(b) => json!({"tag":"set","bdd":self.bdd(b)}),
            });
        }
        json!({"all": all, "sub": sub})
    }
    fn mapping_atom(&mut self, m: &MappingAtomicType) -> Value {
        let vs: Vec<Value> = m.vs.iter().map(|(k, v)| json!({"key":k,"ty":self.st(v)})).collect();
        let ix: Vec<Value> = m
            .indexed_properties
            .iter()
            .map(|ip| json!({"kt":self.st(&ip.key),"vt":self.st(&ip.value)}))
            .collect();
        json!({"vs":vs,"ix":ix})
    }
    fn list_atom(&mut self, l: &ListAtomic) -> Value {
        json!({"prefix": l.prefix_items.iter().map(|p| self.st(p)).collect::<Vec<_>>(), "items": self.st(&l.items)})
    }
    fn atoms(&mut self) -> Value {
        let mut mapping = vec![];
        let mut list = vec![];
        let mut map = vec![];
        let mut set = vec![];
        while let Some(a) = self.todo.pop() {
            match a {
                Atom::Mapping(i) => match self.ctx.mapping_definitions.get(i).and_then(|x| x.clone()) {
                    Some(m) => {
                        let v = self.mapping_atom(&m);
                        mapping.push(json!({"i":i,"def":v}))
                    }
                    None => mapping.push(json!({"i":i,"def":{"vs":[],"ix":[],"missing":true}})),
                },
                Atom::Map(i) => match self.ctx.map_definitions.get(i).and_then(|x| x.clone()) {
                    Some(m) => {
                        let v = self.mapping_atom(&m);
                        map.push(json!({"i":i,"def":v}))
                    }
                    None => map.push(json!({"i":i,"def":{"vs":[],"ix":[],"missing":true}})),
                },
                Atom::List(i) => match self.ctx.list_definitions.get(i).and_then(|x| x.clone()) {
                    Some(l) => {
                        let v = self.list_atom(&l);
                        list.push(json!({"i":i,"def":v}))
                    }
                    None => list.push(json!({"i":i,"def":{"prefix":[],"items":{"all":[],"sub":[]},"missing":true}})),
                },
                Atom::Set(i) => match self.ctx.set_definitions.get(i).and_then(|x| x.clone()) {
                    Some(l) => {
                        let v = self.list_atom(&l);
                        set.push(json!({"i":i,"def":v}))
                    }
                    None => set.push(json!({"i":i,"def":{"prefix":[],"items":{"all":[],"sub":[]},"missing":true}})),
                },
            }
        }
        json!({"mapping":mapping,"list":list,"map":map,"set":set})
    }
}

// ------------------------------------------------------------------------------------------ sem requests
fn run_sem(req: &Value) -> Value {
    let files: Vec<(String, String)> = req["files"]
        .as_array()
        .map(|a| a.iter().map(|p| (p[0].as_str().unwrap_or("").to_string(), p[1].as_str().unwrap_or("").to_string())).collect())
        .unwrap_or_default();
    let mut proj = MemProject::new(&files);
    let res = beff_core::extract(
        &mut proj,
        EntryPoints {
            parser_entry_point: BffFileName::new("entry.ts".to_string()),
            settings: BeffUserSettings {
                string_formats: ["f1", "f2"].iter().map(|s| s.to_string()).collect(),
                number_formats: ["n1", "n2"].iter().map(|s| s.to_string()).collect(),
            },
        },
    );
    if !res.errors.is_empty() {
        let ds: Vec<String> = res.errors.iter().map(|d| d.message.to_string()).collect();
        return json!({"outcome":"diags","messages":ds});
    }
    let decoders: BTreeMap<String, Runtype> = res
        .built_decoders
        .as_ref()
        .map(|d| d.iter().map(|x| (x.exported_name.clone(), x.schema.clone())).collect())
        .unwrap_or_default();
    let validators: Vec<NamedSchema> = res.validators.clone();
    let vrefs: Vec<&NamedSchema> = validators.iter().collect();
    let mut ctx = SemTypeContext::new();
    let mut sts: BTreeMap<String, Rc<SemType>> = BTreeMap::new();
    let mut errors: Vec<String> = vec![];
    for n in req["names"].as_array().cloned().unwrap_or_default() {
        let n = n.as_str().unwrap_or("").to_string();
        match decoders.get(&n) {
            Some(rt) => match rt.to_sem_type(&vrefs, &mut ctx) {
                Ok(st) => {
                    sts.insert(n, st);
                }
                Err(e) => errors.push(format!("to_sem_type {n}: {e}")),
            },
            None => errors.push(format!("no decoder {n}")),
        }
    }
    let mut results = vec![];
    for op in req["ops"].as_array().cloned().unwrap_or_default() {
        let o = op["op"].as_str().unwrap_or("");
        let a = op["a"].as_str().and_then(|n| sts.get(n)).cloned();
        let b = op["b"].as_str().and_then(|n| sts.get(n)).cloned();
        let mut r = json!({"op": o, "a": op["a"], "b": op["b"], "ok": true});
        let Some(a) = a else {
            r["ok"] = json!(false);
            r["err"] = json!("missing operand a");
            results.push(r);
            continue;
        };
        let store = |st: anyhow::Result<Rc<SemType>>, sts: &mut BTreeMap<String, Rc<SemType>>, r: &mut Value| match st {
            Ok(st) => {
                if let Some(n) = op["as"].as_str() {
                    sts.insert(n.to_string(), st);
                }
            }
            Err(e) => {
                r["ok"] = json!(false);
                r["err"] = json!(format!("{e}"));
            }
        };
        match o {
            "sub" | "same" => match b {
                Some(b) => {
                    let v = if o == "sub" { a.is_subtype(&b, &mut ctx) } else { a.is_same_type(&b, &mut ctx) };
                    match v {
                        Ok(v) => r["result"] = json!(v),
                        Err(e) => {
                            r["ok"] = json!(false);
                            r["err"] = json!(format!("{e}"));
                        }
                    }
                }
                None => {
                    r["ok"] = json!(false);
                    r["err"] = json!("missing operand b");
                }
            },
            "empty" => match a.is_empty(&mut ctx) {
                Ok(v) => r["result"] = json!(v),
                Err(e) => {
                    r["ok"] = json!(false);
                    r["err"] = json!(format!("{e}"));
                }
            },
            "union" | "intersect" | "diff" | "index" => match b {
                Some(b) => {
                    let st = match o {
                        "union" => a.union(&b),
                        "intersect" => a.intersect(&b),
                        "diff" => a.diff(&b),
                        _ => ctx.indexed_access(a.clone(), b.clone()),
                    };
                    store(st, &mut sts, &mut r)
                }
                None => {
                    r["ok"] = json!(false);
                    r["err"] = json!("missing operand b");
                }
            },
            "complement" => store(a.complement(), &mut sts, &mut r),
            "keyof" => {
                let st = ctx.keyof(a.clone());
                store(st, &mut sts, &mut r)
            }
            _ => {
                r["ok"] = json!(false);
                r["err"] = json!("unknown op");
            }
        }
        results.push(r);
    }
    // materialisation (C07): semtype -> Runtype (+ helper definitions), as the frontend does for Exclude
    let mut materialized = Map::new();
    let mut counter = res.counter;
    for n in req["materialize"].as_array().cloned().unwrap_or_default() {
        let n = n.as_str().unwrap_or("").to_string();
        let Some(st) = sts.get(&n).cloned() else { continue };
        let name = RuntypeUUID {
            ty: RuntypeName::Address(TypeAddress {
                file: BffFileName::new("entry.ts".to_string()),
                name: format!("Mat{n}"),
            }),
            type_arguments: vec![],
        };
        let empty = st.is_empty(&mut ctx).unwrap_or(false);
        let mut m = json!({"empty": empty});
        match semtype_to_runtypes(&mut ctx, &st, &name, &mut counter) {
            Ok((head, tail)) => {
                m["raw"] = rt_json(&head.schema);
                let mut all: Vec<NamedSchema> = validators.clone();
                all.extend(tail.iter().cloned());
                m["tail"] = json!(tail.iter().map(|t| json!({"n":uuid_name(&t.name),"ty":rt_json(&t.schema),"kind":"type"})).collect::<Vec<_>>());
                // like the frontend (semtype_to_runtype): a result that refers to itself is defined under its name
                let self_ref = format!("{}", rt_json(&head.schema)).contains(&format!("\"n\":\"{}\"", uuid_name(&name)));
                if self_ref {
                    all.push(head.clone());
                }
                let allrefs: Vec<&NamedSchema> = all.iter().collect();
                m["self_recursive"] = json!(self_ref);
                m["env"] = json!(all.iter().map(|t| json!({"n":uuid_name(&t.name),"ty":rt_json(&t.schema),"kind":"type"})).collect::<Vec<_>>());
                match head.schema.clone().remove_nots_of_intersections_and_empty_of_union(&allrefs, &mut ctx) {
                    Ok(clean) => {
                        m["clean"] = rt_json(&clean);
                        // re-conversion: the materialised type must be the same semantic type
                        match clean.to_sem_type(&allrefs, &mut ctx) {
                            Ok(back) => {
                                m["roundtrip_same"] = match back.is_same_type(&st, &mut ctx) {
                                    Ok(b) => json!(if b { "T" } else { "F" }),
                                    Err(e) => json!(format!("E:{e}")),
                                }
                            }
                            Err(e) => m["roundtrip_same"] = json!(format!("E:{e}")),
                        }
                        // code generation for the materialised type
                        let per = ParserExtractResult {
                            errors: vec![],
                            entry_file_name: BffFileName::new("entry.ts".to_string()),
                            validators: all.clone(),
                            built_decoders: Some(vec![BuiltDecoder {
                                exported_name: "T".to_string(),
                                schema: clean.clone(),
                            }]),
                            counter,
                            recursive_generic_uuids: BTreeSet::new(),
                        };
                        let code = catch_unwind(AssertUnwindSafe(|| per.emit_code()));
                        match code {
                            Ok(Ok(c)) => m["code"] = json!(c),
                            Ok(Err(e)) => m["code_error"] = json!(format!("{e}")),
                            Err(_) => {
                                let (msg, loc) = take_panic();
                                m["code_panic"] = json!(format!("{msg} @ {loc}"));
                            }
                        }
                    }
                    Err(e) => m["clean_error"] = json!(format!("{e}")),
                }
            }
            Err(e) => m["error"] = json!(format!("{e}")),
        }
        materialized.insert(n, m);
    }
    let mut d = Dumper {
        ctx: &ctx,
        todo: vec![],
        seen: BTreeSet::new(),
    };
    let mut dumps = Map::new();
    for n in req["dump"].as_array().cloned().unwrap_or_default() {
        let n = n.as_str().unwrap_or("").to_string();
        if let Some(st) = sts.get(&n) {
            dumps.insert(n, d.st(st));
        }
    }
    let atoms = d.atoms();
    let irs: Map<String, Value> = decoders.iter().map(|(k, v)| (k.clone(), rt_json(v))).collect();
    let env: Vec<Value> = validators.iter().map(|t| json!({"n":uuid_name(&t.name),"ty":rt_json(&t.schema),"kind":"type"})).collect();
    json!({"outcome":"ok","errors":errors,"results":results,"dumps":dumps,"atoms":atoms,"materialized":materialized,"ir":irs,"env":env})
}

fn main() {
    install_panic_hook();
    let stdin = std::io::stdin();
    let stdout = std::io::stdout();
    for line in stdin.lock().lines() {
        let Ok(line) = line else { break };
        if line.trim().is_empty() {
            continue;
        }
        let req: Value = serde_json::from_str(&line).expect("bad request");
        let r = catch_unwind(AssertUnwindSafe(|| {
            GLOBALS.set(&Globals::new(), || match req["kind"].as_str() {
                Some("bdd") => run_bdd(&req),
                _ => run_sem(&req),
            })
        }));
        let mut resp = match r {
            Ok(v) => v,
            Err(_) => {
                let (msg, loc) = take_panic();
                json!({"outcome":"panic","msg":msg,"loc":loc})
            }
        };
        resp["id"] = req["id"].clone();
        let mut o = stdout.lock();
        let _ = writeln!(o, "{}", resp);
        let _ = o.flush();
    }
}

//! tsstrip <client-src-dir> <out-dir>: strip the beff client runtime to loadable ES modules.
use beffverif::strip::strip_ts;
use std::fs;
use std::path::Path;

fn main() {
    let args: Vec<String> = std::env::args().collect();
    if args.len() != 3 {
        eprintln!("usage: tsstrip <client-src-dir> <out-dir>");
        std::process::exit(2);
    }
    let src = Path::new(&args[1]);
    let out = Path::new(&args[2]);
    fs::create_dir_all(out).expect("mkdir out");
    swc_common::GLOBALS.set(&swc_common::Globals::new(), || {
        for f in ["codegen-v2", "hash", "err", "openapi-pp", "b"] {
            let p = src.join(format!("{f}.ts"));
            let text = fs::read_to_string(&p).unwrap_or_else(|e| panic!("read {p:?}: {e}"));
            match strip_ts(&format!("{f}.ts"), &text) {
                Ok(js) => fs::write(out.join(format!("{f}.js")), js).expect("write"),
                Err(e) => {
                    eprintln!("tsstrip failed: {e}");
                    std::process::exit(2);
                }
            }
        }
    });
}

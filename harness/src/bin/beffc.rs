//! beffc: compile beff projects given as ndjson requests on stdin; one ndjson response per request.
//! Request:  {"id":..,"files":[[name,content],..],"entry":"entry.ts","register":[names..]?,
//!            "settings":{"string_formats":[..],"number_formats":[..]},"want_ir":bool}
//! Response: {"id":..,"outcome":"code","code":..,"ir":..} | {"outcome":"diags","diags":[..]}
//!           | {"outcome":"panic","msg":..,"loc":..} | {"outcome":"emit_error","msg":..}
//! Hangs and stack overflows are detected by the parent (watchdog / process death).
use beff_core::wasm_diag::WasmDiagnosticInformation;
use beff_core::{BeffUserSettings, BffFileName, EntryPoints};
use beffverif::{MemProject, diag_to_json, install_panic_hook, take_panic};
use serde_json::{Value, json};
use std::io::{BufRead, Write};
use std::panic::{AssertUnwindSafe, catch_unwind};
use swc_common::{GLOBALS, Globals};

fn strs(v: &Value) -> Vec<String> {
    v.as_array()
        .map(|a| a.iter().filter_map(|x| x.as_str().map(|s| s.to_string())).collect())
        .unwrap_or_default()
}

fn compile(req: &Value) -> Value {
    let files: Vec<(String, String)> = req["files"]
        .as_array()
        .map(|a| {
            a.iter()
                .map(|p| {
                    (
                        p[0].as_str().unwrap_or("").to_string(),
                        p[1].as_str().unwrap_or("").to_string(),
                    )
                })
                .collect()
        })
        .unwrap_or_default();
    let entry = req["entry"].as_str().unwrap_or("entry.ts").to_string();
    let settings = BeffUserSettings {
        string_formats: strs(&req["settings"]["string_formats"]).into_iter().collect(),
        number_formats: strs(&req["settings"]["number_formats"]).into_iter().collect(),
    };
    let want_ir = req["want_ir"].as_bool().unwrap_or(false);
    let register = strs(&req["register"]);

    let r = catch_unwind(AssertUnwindSafe(|| {
        GLOBALS.set(&Globals::new(), || {
            let mut proj = MemProject::new(&files);
            for f in &register {
                proj.register(f);
            }
            let res = beff_core::extract(
                &mut proj,
                EntryPoints {
                    parser_entry_point: BffFileName::new(entry.clone()),
                    settings,
                },
            );
            if !res.errors.is_empty() {
                let ds: Vec<Value> = res
                    .errors
                    .iter()
                    .map(|d| diag_to_json(&WasmDiagnosticInformation::from_diagnostic_info(d)))
                    .collect();
                return json!({"outcome":"diags","diags":ds});
            }
            let ir = if want_ir { Some(res.debug_print()) } else { None };
            let names: Vec<String> = res
                .built_decoders
                .as_ref()
                .map(|d| d.iter().map(|x| x.exported_name.clone()).collect())
                .unwrap_or_default();
            match res.emit_code() {
                Ok(code) => json!({"outcome":"code","code":code,"ir":ir,"names":names}),
                Err(e) => json!({"outcome":"emit_error","msg":format!("{e}")}),
            }
        })
    }));
    match r {
        Ok(v) => v,
        Err(_) => {
            let (msg, loc) = take_panic();
            json!({"outcome":"panic","msg":msg,"loc":loc})
        }
    }
}

fn main() {
    install_panic_hook();
    let stdin = std::io::stdin();
    let stdout = std::io::stdout();
    for line in stdin.lock().lines() {
        let Ok(line) = line else { break };
        if line.trim().is_empty() {
            continue;
        }
        let req: Value = match serde_json::from_str(&line) {
            Ok(v) => v,
            Err(e) => {
                let mut o = stdout.lock();
                let _ = writeln!(o, "{}", json!({"outcome":"bad_request","msg":format!("{e}")}));
                let _ = o.flush();
                continue;
            }
        };
        let mut resp = compile(&req);
        resp["id"] = req["id"].clone();
        let mut o = stdout.lock();
        let _ = writeln!(o, "{}", resp);
        let _ = o.flush();
    }
}

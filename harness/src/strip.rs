//! Minimal TypeScript -> JavaScript stripper (swc based) for the beff client runtime.
//! There is no tsc/esbuild in the sandbox and swc_ecma_transforms_typescript is not in the cargo
//! cache, so the erasure is done here: type-only declarations, annotations, assertions and
//! modifiers are removed and imports are elided by value use. The client uses no enums,
//! namespaces or parameter properties; those constructs make the stripper fail loudly.

use anyhow::{Result, anyhow, bail};
use std::collections::BTreeSet;
use swc_common::sync::Lrc;
use swc_common::{FileName, SourceMap};
use swc_ecma_ast::*;
use swc_ecma_codegen::{Config, Emitter, text_writer::JsWriter};
use swc_ecma_parser::{Syntax, TsSyntax, parse_file_as_module};
use swc_ecma_visit::{Visit, VisitMut, VisitMutWith, VisitWith};

struct Strip {
    unsupported: Vec<String>,
}

fn unwrap_ts(e: &mut Expr) {
    loop {
        let inner = match e {
            Expr::TsAs(x) => std::mem::replace(&mut *x.expr, Expr::Invalid(Invalid { span: x.span })),
            Expr::TsNonNull(x) => {
                std::mem::replace(&mut *x.expr, Expr::Invalid(Invalid { span: x.span }))
            }
            Expr::TsConstAssertion(x) => {
                std::mem::replace(&mut *x.expr, Expr::Invalid(Invalid { span: x.span }))
            }
            Expr::TsSatisfies(x) => {
                std::mem::replace(&mut *x.expr, Expr::Invalid(Invalid { span: x.span }))
            }
            Expr::TsTypeAssertion(x) => {
                std::mem::replace(&mut *x.expr, Expr::Invalid(Invalid { span: x.span }))
            }
            Expr::TsInstantiation(x) => {
                std::mem::replace(&mut *x.expr, Expr::Invalid(Invalid { span: x.span }))
            }
            _ => return,
        };
        // keep precedence safe
        *e = Expr::Paren(ParenExpr {
            span: Default::default(),
            expr: Box::new(inner),
        });
    }
}

fn strip_pat(p: &mut Pat) {
    match p {
        Pat::Ident(b) => {
            b.type_ann = None;
            b.id.optional = false;
        }
        Pat::Array(a) => {
            a.type_ann = None;
            a.optional = false;
        }
        Pat::Object(o) => {
            o.type_ann = None;
            o.optional = false;
        }
        Pat::Rest(r) => {
            r.type_ann = None;
        }
        Pat::Assign(_) | Pat::Invalid(_) | Pat::Expr(_) => {}
    }
}

impl VisitMut for Strip {
    fn visit_mut_expr(&mut self, e: &mut Expr) {
        unwrap_ts(e);
        e.visit_mut_children_with(self);
    }
    fn visit_mut_pat(&mut self, p: &mut Pat) {
        strip_pat(p);
        p.visit_mut_children_with(self);
    }
    fn visit_mut_function(&mut self, f: &mut Function) {
        f.return_type = None;
        f.type_params = None;
        // `this` parameter
        f.params.retain(|p| match &p.pat {
            Pat::Ident(b) => b.id.sym != *"this",
            _ => true,
        });
        f.visit_mut_children_with(self);
    }
    fn visit_mut_arrow_expr(&mut self, f: &mut ArrowExpr) {
        f.return_type = None;
        f.type_params = None;
        f.visit_mut_children_with(self);
    }
    fn visit_mut_call_expr(&mut self, c: &mut CallExpr) {
        c.type_args = None;
        c.visit_mut_children_with(self);
    }
    fn visit_mut_new_expr(&mut self, c: &mut NewExpr) {
        c.type_args = None;
        c.visit_mut_children_with(self);
    }
    fn visit_mut_tagged_tpl(&mut self, c: &mut TaggedTpl) {
        c.type_params = None;
        c.visit_mut_children_with(self);
    }
    fn visit_mut_var_declarator(&mut self, v: &mut VarDeclarator) {
        v.definite = false;
        v.visit_mut_children_with(self);
    }
    fn visit_mut_class(&mut self, c: &mut Class) {
        c.type_params = None;
        c.super_type_params = None;
        c.implements.clear();
        c.is_abstract = false;
        c.body.retain(|m| match m {
            ClassMember::Method(m) => !m.is_abstract && m.function.body.is_some(),
            ClassMember::PrivateMethod(m) => !m.is_abstract && m.function.body.is_some(),
            ClassMember::ClassProp(p) => !p.is_abstract && !p.declare,
            ClassMember::TsIndexSignature(_) => false,
            ClassMember::Constructor(c) => c.body.is_some(),
            _ => true,
        });
        for m in c.body.iter_mut() {
            match m {
                ClassMember::Method(m) => {
                    m.accessibility = None;
                    m.is_override = false;
                    m.is_optional = false;
                }
                ClassMember::PrivateMethod(m) => {
                    m.accessibility = None;
                    m.is_override = false;
                    m.is_optional = false;
                }
                ClassMember::ClassProp(p) => {
                    p.type_ann = None;
                    p.accessibility = None;
                    p.readonly = false;
                    p.is_override = false;
                    p.is_optional = false;
                    p.definite = false;
                }
                ClassMember::PrivateProp(p) => {
                    p.type_ann = None;
                    p.accessibility = None;
                    p.readonly = false;
                    p.is_override = false;
                    p.is_optional = false;
                    p.definite = false;
                }
                ClassMember::Constructor(c) => {
                    c.accessibility = None;
                    for p in c.params.iter() {
                        if let ParamOrTsParamProp::TsParamProp(_) = p {
                            self.unsupported.push("parameter property".into());
                        }
                    }
                }
                _ => {}
            }
        }
        c.visit_mut_children_with(self);
    }
    fn visit_mut_module_items(&mut self, items: &mut Vec<ModuleItem>) {
        items.retain_mut(|it| match it {
            ModuleItem::Stmt(Stmt::Decl(d)) => keep_decl(d, &mut self.unsupported),
            ModuleItem::ModuleDecl(ModuleDecl::ExportDecl(e)) => {
                keep_decl(&e.decl, &mut self.unsupported)
            }
            ModuleItem::ModuleDecl(ModuleDecl::Import(i)) => {
                if i.type_only {
                    return false;
                }
                let had = !i.specifiers.is_empty();
                i.specifiers.retain(|s| match s {
                    ImportSpecifier::Named(n) => !n.is_type_only,
                    _ => true,
                });
                !(had && i.specifiers.is_empty())
            }
            ModuleItem::ModuleDecl(ModuleDecl::ExportNamed(e)) => {
                if e.type_only {
                    return false;
                }
                let had = !e.specifiers.is_empty();
                e.specifiers.retain(|s| match s {
                    ExportSpecifier::Named(n) => !n.is_type_only,
                    _ => true,
                });
                !(had && e.specifiers.is_empty())
            }
            ModuleItem::ModuleDecl(ModuleDecl::TsImportEquals(_))
            | ModuleItem::ModuleDecl(ModuleDecl::TsExportAssignment(_))
            | ModuleItem::ModuleDecl(ModuleDecl::TsNamespaceExport(_)) => {
                self.unsupported.push("ts module syntax".into());
                false
            }
            _ => true,
        });
        items.visit_mut_children_with(self);
    }
    fn visit_mut_stmts(&mut self, stmts: &mut Vec<Stmt>) {
        stmts.retain(|s| match s {
            Stmt::Decl(d) => keep_decl(d, &mut self.unsupported),
            _ => true,
        });
        stmts.visit_mut_children_with(self);
    }
}

fn keep_decl(d: &Decl, unsupported: &mut Vec<String>) -> bool {
    match d {
        Decl::TsInterface(_) | Decl::TsTypeAlias(_) => false,
        Decl::TsEnum(_) => {
            unsupported.push("enum".into());
            false
        }
        Decl::TsModule(m) => {
            if !m.declare {
                unsupported.push("namespace".into());
            }
            false
        }
        Decl::Class(c) => !c.declare,
        Decl::Fn(f) => !f.declare && f.function.body.is_some(),
        Decl::Var(v) => !v.declare,
        Decl::Using(_) => true,
    }
}

struct Uses(BTreeSet<String>);
impl Visit for Uses {
    fn visit_ident(&mut self, i: &Ident) {
        self.0.insert(i.sym.to_string());
    }
    fn visit_import_decl(&mut self, _: &ImportDecl) {}
    fn visit_named_export(&mut self, e: &NamedExport) {
        if e.src.is_none() {
            e.visit_children_with(self);
        }
    }
}

/// Names that a module defines or imports as values after stripping (used to drop
/// re-exports of pure types: `export { T } from "./types.js"` cannot be decided locally,
/// so callers pass the set of value exports of the source module).
pub fn strip_ts(file_name: &str, src: &str) -> Result<String> {
    let cm: Lrc<SourceMap> = Default::default();
    let fm = cm.new_source_file(
        FileName::Custom(file_name.to_string()).into(),
        src.to_string(),
    );
    let mut module = parse_file_as_module(
        &fm,
        Syntax::Typescript(TsSyntax {
            tsx: file_name.ends_with(".tsx"),
            ..Default::default()
        }),
        EsVersion::Es2022,
        None,
        &mut vec![],
    )
    .map_err(|e| anyhow!("parse error in {file_name}: {:?}", e))?;

    let mut s = Strip {
        unsupported: vec![],
    };
    module.visit_mut_with(&mut s);
    if !s.unsupported.is_empty() {
        bail!(
            "tsstrip: unsupported TypeScript constructs in {file_name}: {:?}",
            s.unsupported
        );
    }

    // import elision by value use
    let mut uses = Uses(BTreeSet::new());
    module.visit_with(&mut uses);
    module.body.retain_mut(|it| match it {
        ModuleItem::ModuleDecl(ModuleDecl::Import(i)) => {
            if i.specifiers.is_empty() {
                return true; // side-effect import
            }
            i.specifiers.retain(|s| {
                let local = match s {
                    ImportSpecifier::Named(n) => &n.local,
                    ImportSpecifier::Default(n) => &n.local,
                    ImportSpecifier::Namespace(n) => &n.local,
                };
                uses.0.contains(&local.sym.to_string())
            });
            !i.specifiers.is_empty()
        }
        _ => true,
    });

    let mut buf = vec![];
    {
        let mut emitter = Emitter {
            cfg: Config::default().with_target(EsVersion::Es2022),
            cm: cm.clone(),
            comments: None,
            wr: JsWriter::new(cm.clone(), "\n", &mut buf, None),
        };
        emitter
            .emit_module(&module)
            .map_err(|e| anyhow!("emit error: {e}"))?;
    }
    Ok(String::from_utf8(buf)?)
}

//! Shared pieces of the beff verification harness: an in-memory project
//! (FileManager + module resolver mirroring beff-wasm's LazyFileManager),
//! panic capture, and JSON rendering of diagnostics.

use beff_core::swc_tools::bind_exports::{FsModuleResolver, parse_and_bind};
use beff_core::wasm_diag::WasmDiagnosticInformation;
use beff_core::{BffFileName, FileManager, ParsedModule};
use serde_json::{Value, json};
use std::cell::RefCell;
use std::collections::{BTreeMap, HashMap};
use std::rc::Rc;

pub mod strip;

thread_local! {
    pub static LAST_PANIC: RefCell<Option<(String, String)>> = const { RefCell::new(None) };
}

/// Install a panic hook that records (message, file:line) of the last panic in this thread
/// instead of printing it.
pub fn install_panic_hook() {
    std::panic::set_hook(Box::new(|info| {
        let loc = info
            .location()
            .map(|l| format!("{}:{}", l.file(), l.line()))
            .unwrap_or_else(|| "?".to_string());
        let msg = if let Some(s) = info.payload().downcast_ref::<&str>() {
            s.to_string()
        } else if let Some(s) = info.payload().downcast_ref::<String>() {
            s.clone()
        } else {
            "?".to_string()
        };
        LAST_PANIC.with(|p| *p.borrow_mut() = Some((msg, loc)));
    }));
}

pub fn take_panic() -> (String, String) {
    LAST_PANIC
        .with(|p| p.borrow_mut().take())
        .unwrap_or(("?".into(), "?".into()))
}

/// Resolve a relative module specifier against an in-memory disk.
pub fn resolve_on_disk(
    disk: &BTreeMap<String, String>,
    current_file: &str,
    spec: &str,
) -> Option<String> {
    if !(spec.starts_with("./") || spec.starts_with("../")) {
        return None;
    }
    let mut parts: Vec<&str> = current_file.split('/').collect();
    parts.pop();
    for seg in spec.split('/') {
        match seg {
            "." | "" => {}
            ".." => {
                parts.pop();
            }
            s => parts.push(s),
        }
    }
    let base = parts.join("/");
    let cands = [
        format!("{base}.ts"),
        format!("{base}.tsx"),
        format!("{base}.d.ts"),
        base.clone(),
        format!("{base}/index.ts"),
    ];
    cands.into_iter().find(|c| disk.contains_key(c))
}

pub struct MemResolver<'a> {
    pub disk: &'a BTreeMap<String, String>,
}
impl FsModuleResolver for MemResolver<'_> {
    fn resolve_import(&mut self, current_file: BffFileName, spec: &str) -> Option<BffFileName> {
        resolve_on_disk(self.disk, current_file.as_str(), spec).map(BffFileName::new)
    }
}

/// In-memory project. Same contract as beff-wasm's LazyFileManager: cache first,
/// otherwise read + parse and cache on success.
pub struct MemProject {
    pub disk: BTreeMap<String, String>,
    pub parsed: HashMap<BffFileName, Rc<ParsedModule>>,
}
impl MemProject {
    pub fn new(files: &[(String, String)]) -> Self {
        MemProject {
            disk: files.iter().cloned().collect(),
            parsed: HashMap::new(),
        }
    }
    /// Parse and register `name` now (used to impose a registration order).
    pub fn register(&mut self, name: &str) -> bool {
        self.get_or_fetch_file(&BffFileName::new(name.to_string()))
            .is_some()
    }
}
impl FileManager for MemProject {
    fn get_or_fetch_file(&mut self, name: &BffFileName) -> Option<Rc<ParsedModule>> {
        if let Some(it) = self.parsed.get(name) {
            return Some(it.clone());
        }
        let content = self.disk.get(name.as_str())?.clone();
        let mut resolver = MemResolver { disk: &self.disk };
        // swc prints parse errors on stderr; the harness runs with stderr discarded
        match parse_and_bind(&mut resolver, name, &content) {
            Ok(f) => {
                self.parsed.insert(name.clone(), f.clone());
                Some(f)
            }
            Err(_) => None,
        }
    }
    fn get_existing_file(&self, name: &BffFileName) -> Option<Rc<ParsedModule>> {
        self.parsed.get(name).cloned()
    }
    fn resolve_import(&mut self, current_file: BffFileName, spec: &str) -> Option<BffFileName> {
        resolve_on_disk(&self.disk, current_file.as_str(), spec).map(BffFileName::new)
    }
}

pub fn diag_to_json(d: &WasmDiagnosticInformation) -> Value {
    match d {
        WasmDiagnosticInformation::KnownFile {
            message,
            file_name,
            line_lo,
            col_lo,
            line_hi,
            col_hi,
        } => json!({"kind":"known","message":message,"file":file_name,
            "line_lo":line_lo,"col_lo":col_lo,"line_hi":line_hi,"col_hi":col_hi}),
        WasmDiagnosticInformation::UnknownFile {
            message,
            current_file,
        } => json!({"kind":"unknown","message":message,"file":current_file}),
    }
}
